"""
Public-API coverage of C19 ("never mutate caller data": arguments of EVERY public entry point).

`public_api()` enumerates, by introspection of the imported `typedpy` package (it has no `__all__`: every public,
non-module attribute of the package) and of the public methods of its entry-point classes, the callables a caller
can reach.  Every one of them must have a row in `apiRows` (lean/TypedpyModel/Spec/AliasScope.lean) — obligation
`api_covered` — and every row that is not `outside` must have an executable probe here (`COVER`) — obligation
`api_rows_probed`.  The probes of kind "probe" are run as `op = "api"` cases of the alias suite on every run:
deep snapshot of every argument before/after, identity comparison result vs arguments where the function is
documented to build a new object, poke of the result where the function hands out class-level state.
"""
import collections
import copy
import enum
import inspect
import json
import os

METHOD_OWNERS = ("Structure", "Serializer", "Deserializer", "FastSerializable", "Field")


def public_api():
    """[(name, kind)], kind = function | method | class | structure | field | exception | value"""
    import types
    import typedpy
    from typedpy import Field, Structure
    out = []
    for n in sorted(vars(typedpy)):
        if n.startswith("_"):
            continue
        o = getattr(typedpy, n)
        if isinstance(o, types.ModuleType):
            continue
        if isinstance(o, type):
            kind = ("field" if issubclass(o, Field) else "exception" if issubclass(o, BaseException)
                    else "structure" if issubclass(o, Structure) else "class")
        elif callable(o):
            kind = "function"
        else:
            kind = "value"
        out.append((n, kind))
    for owner in METHOD_OWNERS:
        cls = getattr(typedpy, owner, None)
        if cls is None:
            continue
        for n, v in vars(cls).items():
            if n.startswith("_"):
                continue
            if callable(v) or isinstance(v, (classmethod, staticmethod, property)):
                out.append((f"{owner}.{n}", "method"))
    return sorted(set(out))


# ------------------------------------------------------------------ probes

def _classes():
    from typedpy import Structure, Array, Map, Integer, String, Enum, ImmutableStructure
    inner = type("ApiInner", (Structure,), {"x": Integer(), "l": Array(items=Integer()), "_required": ["x"]})
    body = {"a": Array(items=Array(items=Integer())), "m": Map(items=[String(), Array(items=Integer())]),
            "i": inner, "e": Enum(values=["p", "q"]), "s": String(default="d"), "_required": ["a"]}
    cls = type("ApiTop", (Structure,), body)
    return cls, inner


def _doc():
    return {"a": [[1, 2], [3]], "m": {"k": [1]}, "i": {"x": 1, "l": [1, 2]}, "e": "p"}


def _p_deserialize_single_field():
    from typedpy import deserialize_single_field, Array, Map, String, Integer
    field = Array(items=Map(items=[String(), Array(items=Integer())]))
    src = [{"k": [1, 2]}, {"z": []}]
    mapper = {}
    return [src, mapper], lambda: deserialize_single_field(field, src, "f", mapper=mapper), "fresh"


def _p_serialize_field():
    from typedpy import serialize_field, Array, Map, String, Integer, Structure
    holder = type("ApiH", (Structure,), {"f": Array(items=Map(items=[String(), Array(items=Integer())]))})
    x = holder(f=[{"k": [1, 2]}])
    field = holder.get_all_fields_by_name()["f"]
    from . import alias as S
    return [], lambda: serialize_field(field, x.f), ("fresh-from", x.__dict__["f"], lambda: S.inst_fp(x))


def _p_deserializer_by_discriminator():
    from typedpy import deserializer_by_discriminator, Structure, String, Array, Integer
    a = type("ApiDA", (Structure,), {"kind": String(), "l": Array(items=Integer())})
    b = type("ApiDB", (Structure,), {"kind": String(), "s": String()})
    table = {"a": a, "b": b}
    doc = {"kind": "a", "l": [1, 2]}

    def call():
        fn = deserializer_by_discriminator(table)
        return fn("a", doc)           # (discriminator value, data)
    return [table, doc], call, "fresh"


def _p_write_code_from_schema():
    from typedpy import write_code_from_schema, structure_to_schema
    cls, _ = _classes()
    schema, defs = structure_to_schema(cls, {})
    here = os.path.dirname(os.path.dirname(os.path.dirname(os.path.abspath(__file__))))
    path = os.path.join(here, "work", f"c19_api_{os.getpid()}.py")

    def call():
        os.makedirs(os.path.dirname(path), exist_ok=True)
        try:
            write_code_from_schema(schema, defs, path, "ApiGen")
        finally:
            if os.path.exists(path):
                os.remove(path)
        return None
    return [schema, defs], call, None


def _p_from_trusted_data():
    cls, inner = _classes()
    src = cls(a=[[1], [2]], m={"k": [1]}, i=inner(x=1, l=[1]), e="p")
    ignore = ["e"]
    over = {"e": "q"}
    return [ignore, over], lambda: cls.from_trusted_data(src, ignore_props=ignore, **over), None


def _p_from_trusted_dict():
    cls, inner = _classes()
    doc = {"a": [[1], [2]], "m": {"k": [1]}, "e": "p"}
    return [doc], lambda: cls.from_trusted_data(None, **doc), None


def _cls_probe(method, *args):
    def build():
        from . import alias as S
        cls, _ = _classes()
        a = [copy.deepcopy(x) for x in args]
        return a, lambda: getattr(cls, method)(*a), ("handout", lambda: S.cls_fp(cls))
    return build


def _p_deep_get():
    from typedpy import deep_get
    d = {"a": {"b": [{"c": [1]}, {"c": [2]}]}, "k": [1]}
    return [d], lambda: [deep_get(d, "a.b.c"), deep_get(d, "a.b", do_flatten=True), deep_get(d, "zz", default=[])], None


def _p_flatten():
    from typedpy import flatten
    x = [[1, [2, None]], [3], None]
    return [x], lambda: [flatten(x), flatten(x, ignore_none=True)], None


def _p_first_in():
    from typedpy import first_in
    x = [None, [1], [2]]
    return [x], lambda: [first_in(x), first_in(x, ignore_none=True)], None


def _p_declare():
    """declaration-time arguments: values / items / default / _required lists given to field constructors and to
    the class body are read, never edited"""
    from typedpy import Enum, Array, Map, Integer, String, Structure, AnyOf, Tuple, Set
    values, items, dflt, req, opts, mdef = ["a", "b"], [Integer(), String()], [1, "x"], ["e", "t"], [Integer(), String()], {"k": [1]}

    def call():
        body = {"e": Enum(values=values), "t": Tuple(items=items), "arr": Array(items=items, default=dflt),
                "o": AnyOf(fields=opts), "m": Map(default=mdef), "_required": req}
        cls = type("ApiDecl", (Structure,), body)
        x = cls(e="a", t=(1, "s"))
        x.arr.append(5)
        x.m["z"] = 1
        return cls
    return [values, [type(i).__name__ for i in items], dflt, req, [type(i).__name__ for i in opts], mdef, len(items), len(opts)], call, None


def _p_create_typed_field():
    from typedpy import create_typed_field, Structure

    class Pt:
        def __init__(self, l):
            self.l = l
    pt = Pt([1, 2])

    def call():
        F = create_typed_field("PtField", Pt)
        cls = type("ApiTF", (Structure,), {"p": F()})
        x = cls(p=pt)
        return x
    return [pt.l], call, None


def _p_get_simplified_error():
    from typedpy import get_simplified_error, standard_readable_error_for_typedpy_exception
    msgs = ["a: Got 1; Expected a string", json.dumps(["a: Got 1; Expected a string", "b: missing"])]

    def call():
        out = [get_simplified_error(m) for m in msgs]
        try:
            out.append(standard_readable_error_for_typedpy_exception(ValueError(msgs[0])))
        except Exception as e:   # whatever it does with the exception, the arguments stay
            out.append(type(e).__name__)
        return None
    return [msgs], call, None


def _p_immutable_getattr():
    """what attribute access on an immutable owner hands out (Anything / untyped content: a defensive copy) can be
    edited freely without the instance noticing"""
    from typedpy import ImmutableStructure, Structure, Anything, Array, Map
    from . import alias as S
    imm = type("ApiImm", (ImmutableStructure,), {"opt": Anything(), "u": Array(), "m": Map(), "_required": []})
    fld = type("ApiImmF", (Structure,), {"opt": Anything(immutable=True), "_required": []})
    x = imm(opt=[1, [2], {"k": [3]}], u=[[1], {"z": [2]}], m={"k": [1, [2]]})
    y = fld(opt=[1, [2], {"k": [3]}])

    def call():
        got = [x.opt, y.opt]
        for v in got:
            v.append("__leak__")
            v[1].append("__leak__")
            v[2]["k"].append("__leak__")
        for e in list(x.u):
            if isinstance(e, list):
                e.append("__leak__")
            elif isinstance(e, dict):
                e["__leak__"] = 1
        for e in list(x.m.values()):
            e.append("__leak__")
        return None
    return [], call, ("unchanged", lambda: S.inst_fp(x) + S.inst_fp(y))


PROBES = {
    "deserialize_single_field": _p_deserialize_single_field,
    "serialize_field": _p_serialize_field,
    "deserializer_by_discriminator": _p_deserializer_by_discriminator,
    "write_code_from_schema": _p_write_code_from_schema,
    "Structure.from_trusted_data": _p_from_trusted_data,
    "Structure.from_trusted_data:dict": _p_from_trusted_dict,
    "Structure.get_all_fields_by_name": _cls_probe("get_all_fields_by_name"),
    "Structure.get_aggregated_serialization_mapper": _cls_probe("get_aggregated_serialization_mapper"),
    "Structure.get_aggregated_deserialization_mapper": _cls_probe("get_aggregated_deserialization_mapper"),
    "Structure.omit": _cls_probe("omit", "m", "s"),
    "Structure.pick": _cls_probe("pick", "a", "m"),
    "deep_get": _p_deep_get,
    "flatten": _p_flatten,
    "first_in": _p_first_in,
    "create_typed_field": _p_create_typed_field,
    "get_simplified_error": _p_get_simplified_error,
    "standard_readable_error_for_typedpy_exception": _p_get_simplified_error,
    "declare:fields": _p_declare,
    "ImmutableStructure:getattr": _p_immutable_getattr,
}

# entry points exercised by the operation streams of the alias suite (harness/suites/alias.py): name -> op
BY_OP = {
    "Structure": "construct", "ImmutableStructure": "construct", "AbstractStructure": "construct",
    "FinalStructure": "construct", "Versioned": "convert", "ErrorInfo": "construct",
    "Structure.shallow_clone_with_overrides": "construct", "Structure.cast_to": "construct",
    "Structure.to_other_class": "construct", "Structure.from_other_class": "construct",
    "Deserializer": "deserialize", "Deserializer.deserialize": "deserialize", "deserialize_structure": "deserialize",
    "Serializer": "serialize", "Serializer.serialize": "serialize", "serialize": "serialize",
    "Field.serialize": "fieldSerialize",
    "create_serializer": "fastSerialize", "FastSerializable": "fastSerialize", "FastSerializable.serialize": "fastSerialize",
    "convert_dict": "convert", "Constant": "convert", "Deleted": "convert", "FunctionCall": "convert",
    "Extend": "derive", "Omit": "derive", "Pick": "derive", "Partial": "derive", "AllFieldsRequired": "derive",
    "structure_to_schema": "toSchema", "Field.to_json_schema": "toSchema",
    "schema_to_struct_code": "schemaToCode", "schema_definitions_to_code": "schemaToCode",
    "Field.from_json_schema": "schemaToCode",
}


def probed_names():
    """names with an executable probe in this suite (direct probe or operation stream)"""
    return sorted(set(n.split(":")[0] for n in PROBES) | set(BY_OP))


def api_cases():
    return [{"suite": "alias", "op": "api", "fn": n} for n in sorted(PROBES)]


def _mutables(o, depth=0, seen=None):
    seen = seen if seen is not None else {}
    if depth > 8 or id(o) in seen:
        return seen
    if isinstance(o, (list, dict, set, collections.deque)):
        seen[id(o)] = o
    from typedpy import Structure
    if isinstance(o, Structure):
        seen[id(o)] = o
        kids = list(o.__dict__.values())
    elif isinstance(o, dict):
        kids = list(o.values())
    elif isinstance(o, (list, tuple, set, frozenset, collections.deque)):
        kids = list(o)
    else:
        kids = []
    for k in kids:
        _mutables(k, depth + 1, seen)
    return seen


def run_api(case):
    from .. import aliasprobe as AP
    name = case["fn"]
    try:
        args, call, expect = PROBES[name]()
    except Exception as e:
        return {"unbuildable": f"{type(e).__name__}: {e}"[:300]}
    res = {"api": name}
    before = json.dumps(AP.deep_canon(args), sort_keys=True, default=str)
    fp0 = None
    if isinstance(expect, tuple) and expect[0] in ("handout", "unchanged"):
        fp0 = expect[1]()
    try:
        out = call()
        res["ok"] = True
    except Exception as e:
        out = None
        res["ok"] = False
        res["err"] = type(e).__name__
        res["msg"] = str(e)[:200]
    res["args_same"] = before == json.dumps(AP.deep_canon(args), sort_keys=True, default=str)
    res["problems"] = []
    if res["ok"] and expect == "fresh":
        shared = set(_mutables(args)) & set(_mutables(out))
        if shared:
            res["problems"].append(["result-aliases-arg", f"the result of {name} contains {len(shared)} mutable object(s) "
                                    f"of its arguments"])
    if res["ok"] and isinstance(expect, tuple) and expect[0] == "fresh-from":
        shared = set(_mutables(expect[1])) & set(_mutables(out))
        if shared:
            res["problems"].append(["result-aliases-internal", f"the result of {name} contains {len(shared)} live "
                                    f"object(s) of the instance"])
    if res["ok"] and isinstance(expect, tuple) and expect[0] == "unchanged":
        if expect[1]() != fp0:
            res["problems"].append(["result-aliases-internal", f"editing what {name} handed out changed the instance"])
    if res["ok"] and isinstance(expect, tuple) and expect[0] == "handout":
        # the caller empties / edits whatever container it was handed: the class must not notice
        for o in list(_mutables(out).values()):
            try:
                if isinstance(o, dict):
                    o["__leak__"] = 1
                    o.pop(next(iter(o)))
                elif isinstance(o, list):
                    o.append("__leak__")
                    o.pop(0)
                elif isinstance(o, set):
                    o.add("__leak__")
            except Exception:
                pass
        try:
            fp1 = expect[1]()
        except Exception as e:
            fp1 = "fingerprint-raises:" + type(e).__name__
        if fp1 != fp0:
            res["problems"].append(["result-aliases-internal", f"editing what {name} returned changed the class"])
    return res


def judge_api(case, impl):
    fails = []
    if "unbuildable" in impl:
        return f"api probe {case['fn']} could not be built: {impl['unbuildable']}", fails
    name = case["fn"]
    if not impl.get("args_same", True):
        fails.append((f"arg-mutated:api:{name}", f"{name} changed one of its arguments (deep snapshot differs)"))
    for key, what in impl.get("problems", []):
        fails.append((f"{key}:api:{name}", what))
    return None, fails
