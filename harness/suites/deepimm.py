"""
Oracle-only cases for C04 at nesting depth >= 2 (no Lean counterpart: heap aliasing is not in the model).
Real immutable classes whose field holds structures inside collections inside structures ..., and collections
held through Optional / AnyOf.  Three probes, each mutation on a FRESH instance:

  read   every object reachable from the instance through public reads (attribute, index, key, iteration) at any
         depth x every mutation attempt of its runtime type (aliasprobe.mutation_attempts)
  ctor   every mutable object reachable from the constructor argument, mutated after construction
  wrap   the constructor argument is the field value of ANOTHER (mutable) structure (a typedpy wrapper object);
         that structure's content is mutated afterwards

The observable state (str, hash, ==, serialization) of the immutable instance must not change.
"""
import collections
import copy

from typedpy import (Structure, ImmutableStructure, Array, Deque, Map, Set, Tuple, String, Integer, AnyOf, Anything,
                     Serializer)

from .. import aliasprobe


class Point(Structure):
    x: int
    y: int


class Holder(Structure):
    xs = Array[Integer]
    name = String
    _required = ["xs"]


class TrackD(Structure):
    points = Deque[Point]
    _required = ["points"]


class TrackA(Structure):
    points = Array[Point]
    _required = ["points"]


class TrackM(Structure):
    points = Map[String, Point]
    _required = ["points"]


P = lambda i=1: Point(x=i, y=i + 1)
DQ = lambda *xs: collections.deque(xs)

# shape name -> (field factory, fresh-argument factory)
SHAPES = {
    "struct": (lambda: Point, lambda: P()),
    "struct>deque>struct": (lambda: TrackD, lambda: TrackD(points=DQ(P(1), P(3)))),
    "struct>array>struct": (lambda: TrackA, lambda: TrackA(points=[P(1), P(3)])),
    "struct>map>struct": (lambda: TrackM, lambda: TrackM(points={"a": P(1)})),
    "struct>array>int": (lambda: Holder, lambda: Holder(xs=[1, 2], name="h")),
    "array>struct": (lambda: Array[Point], lambda: [P(1), P(3)]),
    "deque>struct": (lambda: Deque[Point], lambda: DQ(P(1), P(3))),
    "map>struct": (lambda: Map[String, Point], lambda: {"a": P(1), "b": P(3)}),
    "tuple>struct": (lambda: Tuple[Point], lambda: (P(1), P(3))),
    "array>deque>struct": (lambda: Array[Deque[Point]], lambda: [DQ(P(1)), DQ(P(3), P(5))]),
    "map>deque>struct": (lambda: Map[String, Deque[Point]], lambda: {"n": DQ(P(5), P(7))}),
    "deque>deque>struct": (lambda: Deque[Deque[Point]], lambda: DQ(DQ(P(1)), DQ(P(3)))),
    "tuple>deque>struct": (lambda: Tuple[Deque[Point]], lambda: (DQ(P(1)), DQ(P(3)))),
    "array>array>struct": (lambda: Array[Array[Point]], lambda: [[P(1)], [P(3), P(5)]]),
    "map>array>struct": (lambda: Map[String, Array[Point]], lambda: {"n": [P(5), P(7)]}),
    "array>map>struct": (lambda: Array[Map[String, Point]], lambda: [{"a": P(1)}, {"b": P(3)}]),
    "deque>array>struct": (lambda: Deque[Array[Point]], lambda: DQ([P(1)], [P(3)])),
    "array>struct>array>int": (lambda: Array[Holder], lambda: [Holder(xs=[1], name="a"), Holder(xs=[2, 3])]),
    "array>struct>deque>struct": (lambda: Array[TrackD], lambda: [TrackD(points=DQ(P(1), P(3)))]),
    "map>struct>map>struct": (lambda: Map[String, TrackM], lambda: {"t": TrackM(points={"a": P(1)})}),
    "deque-untyped>dict": (lambda: Deque, lambda: DQ({"k": [1]}, [2, 3])),
    "array>deque-untyped>dict": (lambda: Array[Deque], lambda: [DQ({"k": [1]}, [2, 3])]),
    "array-untyped>dict": (lambda: Array, lambda: [{"k": [1]}, [2, 3], ({"z": 1},)]),
    "map-untyped>list": (lambda: Map, lambda: {"a": [1, {"b": 2}], "c": ([3],)}),
    "optional>array>int": (lambda: AnyOf[Array[Integer], None], lambda: [1, 2]),
    "optional>array>struct": (lambda: AnyOf[Array[Point], None], lambda: [P(1), P(3)]),
    "optional>deque>struct": (lambda: AnyOf[Deque[Point], None], lambda: DQ(P(1), P(3))),
    "optional>map>struct": (lambda: AnyOf[Map[String, Point], None], lambda: {"a": P(1)}),
    "anyof>array>string|int": (lambda: AnyOf[Array[String], Integer], lambda: ["a", "b"]),
    "anyof>map>array>int": (lambda: AnyOf[Integer, Map[String, Array[Integer]]], lambda: {"a": [1, 2]}),
    "optional>struct>deque>struct": (lambda: AnyOf[TrackD, None], lambda: TrackD(points=DQ(P(1)))),
    "array>optional>array>int": (lambda: Array[AnyOf[Array[Integer], None]], lambda: [[1, 2], None, [3]]),
    "set>int": (lambda: Set[Integer], lambda: {1, 2}),
    "anything>list>dict": (lambda: Anything, lambda: [{"k": [1]}, (2, [3])]),
    "map-structkey": (lambda: Map[Point, Integer], lambda: {P(1): 1, P(3): 2}),
}
MODES = ["read", "ctor", "wrap"]


def cases():
    return [{"suite": "deepimm", "shape": s, "mode": m, "second_field": sf}
            for s in sorted(SHAPES) for m in MODES for sf in (False, True)]


def _classes(shape, second_field):
    mk, _ = SHAPES[shape]
    body = {"f": mk(), "_required": ["f"], "_additional_properties": False}
    if second_field:
        body["n"] = Integer(default=7)      # something else is populated before / next to the probed field
    imm = type("Imm", (ImmutableStructure,), dict(body))
    src = type("Src", (Structure,), {"f": mk(), "_required": ["f"]})
    return imm, src


def _fingerprint(x, twin):
    out = [str(x)]
    try:
        out.append(hash(x))
    except Exception as e:
        out.append("hash-raises:" + type(e).__name__)
    try:
        out.append(repr(Serializer(x).serialize()))
    except Exception as e:
        out.append("serialize-raises:" + type(e).__name__)
    try:
        out.append(x == twin)
    except Exception as e:
        out.append("eq-raises:" + type(e).__name__)
    return out


def read_paths(obj, depth=0, seen=None):
    """public read paths from obj to every reachable object: lists of steps ("attr", name) / ("idx", i) /
    ("key", i) = i-th key's value / ("keyobj", i) = the i-th key itself / ("iter", i)"""
    seen = seen if seen is not None else set()
    out = [[]]
    if depth >= 6 or id(obj) in seen:
        return out
    seen = seen | {id(obj)}
    steps = []
    if isinstance(obj, Structure):
        steps = [("attr", k) for k in obj.__dict__ if not k.startswith("_")]
    elif isinstance(obj, (list, collections.deque)):
        steps = [("idx", i) for i in range(min(len(obj), 2))]
    elif isinstance(obj, dict):
        steps = [("key", i) for i in range(min(len(obj), 2))] + [("keyobj", i) for i in range(min(len(obj), 2))] \
            + [("revkey", i) for i in range(min(len(obj), 2))]      # reversed(d): the keys through dict.__reversed__
    elif isinstance(obj, (tuple, set, frozenset)):
        steps = [("iter", i) for i in range(min(len(obj), 2))]
    for st in steps:
        try:
            ch = follow(obj, [st])
        except Exception:
            continue
        if isinstance(ch, (int, float, str, bool, bytes, type(None))):
            continue
        for p in read_paths(ch, depth + 1, seen):
            out.append([st] + p)
    return out


def follow(obj, path):
    for kind, a in path:
        if kind == "attr":
            obj = getattr(obj, a)
        elif kind == "idx":
            obj = obj[a]
        elif kind == "key":
            obj = obj[list(obj)[a]]
        elif kind == "keyobj":
            obj = list(obj)[a]
        elif kind == "revkey":
            obj = list(reversed(obj))[a]
        else:
            obj = list(obj)[a]
    return obj


def _path_label(path):
    return ">".join(k if k in ("idx", "key", "keyobj", "revkey", "iter") else f"attr" for k, _ in path) or "self"


def run_impl(case):
    shape, mode = case["shape"], case["mode"]
    try:
        imm, src = _classes(shape, case.get("second_field"))
        mkarg = SHAPES[shape][1]
        build = lambda arg=None: imm(f=mkarg() if arg is None else arg)
        build()
    except Exception as e:
        return {"skip": f"{type(e).__name__}: {e}"[:200]}
    leaks, attempts = [], 0
    if mode == "read":
        x0 = build()
        for path in read_paths(x0):
            if not path:
                continue
            try:
                target = follow(x0, path)
            except Exception:
                continue
            for mi in range(len(aliasprobe.mutation_attempts(target))):
                x, twin = build(), build()
                fp0 = _fingerprint(x, twin)
                try:
                    o = follow(x, path)
                    atts = aliasprobe.mutation_attempts(o)
                except Exception:
                    continue
                if mi >= len(atts):
                    continue
                mlabel, attempt = atts[mi]
                attempts += 1
                raised = None
                try:
                    attempt()
                except Exception as e:
                    raised = type(e).__name__
                if _fingerprint(x, twin) != fp0:
                    leaks.append({"via": _path_label(path[1:]), "mut": mlabel, "raised": raised, "path": repr(path)})
    else:
        def make():
            arg = mkarg()
            if mode == "wrap":
                holder = src(f=arg)
                return holder, holder.f
            return arg, arg
        root0, _ = make()
        targets0 = aliasprobe.reachable_mutables(root0)
        for ti in range(len(targets0)):
            for mi in range(len(aliasprobe.mutation_attempts(targets0[ti][1]))):
                root, arg = make()
                try:
                    x = imm(f=arg)
                except Exception as e:
                    return {"skip": f"construct: {type(e).__name__}: {e}"[:200]}
                twin = build()
                fp0 = _fingerprint(x, twin)
                targets = aliasprobe.reachable_mutables(root)
                if ti >= len(targets):
                    continue
                path, o = targets[ti]
                atts = aliasprobe.mutation_attempts(o)
                if mi >= len(atts):
                    continue
                mlabel, attempt = atts[mi]
                attempts += 1
                try:
                    attempt()
                except Exception:
                    pass
                if _fingerprint(x, twin) != fp0:
                    parts = path.split(">")[1:]
                    leaks.append({"via": ">".join(sorted(set(parts))) or "arg", "mut": mlabel, "path": path})
    return {"leaks": leaks[:40], "n_leaks": len(leaks), "attempts": attempts}


def judge(case, impl):
    if "skip" in impl:
        return []
    fails = []
    for r in impl.get("leaks", []):
        what = {"read": "an object obtained by reading", "ctor": "the constructor argument", "wrap": "the structure whose field value was passed to the constructor"}[case["mode"]]
        # reads through an accessor other than attribute / index / key / iteration are named in the key
        via = ":via-reversed" if "revkey" in str(r["path"]) else ""
        fails.append((f"deep-{case['mode']}-leak:{case['shape']}{via}:{r['mut']}",
                      f"ImmutableStructure over {case['shape']} changed by {r['mut']} on {what} (path {r['path']})"))
    return fails
