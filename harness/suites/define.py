"""
Suites `define` and `derive`: histories of class-creating statements (class definitions by
`type(name, bases, dict)` or by exec of class-statement source text, plain mixins, derivation
operators, Field-class definitions) run on the real code and on the Lean model
(`Sem/Define.defineClass`, `Sem/Derive.deriveClass`).  Serves C12 (props/c12.py) and C14
(props/c14.py).

Real side: every step yields a dump of the class it produced (fields by name with declaration and
default, `_required`, constants, constructor signature, MRO, flags) or the exception class, plus
the *property observations* made on the real classes only (field / required supersets, accept /
reject of shared value streams on base vs sub and source vs derived, source fingerprints before /
after, issubclass, instantiation of abstract classes).
"""
import copy
import enum
import json
import zlib

import typedpy
from typedpy import (Structure, ImmutableStructure, Partial, AllFieldsRequired, Extend, Omit, Pick,
                     ImmutableField, String, Integer, Field, Deserializer)
from typedpy.commons import Constant
from typedpy.structures import (AbstractStructure, FinalStructure, keys_of, TypedPyDefaults)
from inspect import Parameter

from .. import dump, gen
from .construct import make_ctx, err_name, rename_inline, fix_accepts

BUILTIN_BASES = {"Structure": Structure, "ImmutableStructure": ImmutableStructure,
                 "FinalStructure": FinalStructure, "AbstractStructure": AbstractStructure}
FIELD_NAMES = ["a", "b", "c", "d", "e1", "f_2"]
KW_DEFAULT_KINDS = {"integer", "number", "float", "string", "boolean", "enumLit", "enumCls", "seqAny", "seqOf",
                    "seqPos", "setAny", "setOf", "tupleOf", "tuplePos", "mapAny", "mapOf", "anything"}
NO_DEFAULT_KINDS = {"struct", "noneF"}
SCALAR_KINDS = {None, "integer", "number", "float", "string", "boolean", "enumLit", "enumCls", "noneF", "anything"}
ATTR_VALUES = {"bool": True, "list": [1, 2], "dict": {"k": 1}, "bareType": int, "generic": list[int], "other": 5,
               "union": int | str,   # PEP 604 union of bare types (types.UnionType)
               "mapper": {}}
CLASS_FORM = {"integer": Integer, "string": String, "boolean": typedpy.Boolean, "number": typedpy.Number,
              "float": typedpy.Float, "seqAny": typedpy.Array, "anything": typedpy.Anything,
              "mapAny": typedpy.Map, "setAny": typedpy.Set}


# ------------------------------------------------------------------ generation

def strip_decl(d):
    """normal form of a declaration for comparing model output with dumps"""
    d = dump.normalize_decl(d)

    def walk(x):
        if isinstance(x, list):
            return [walk(y) for y in x]
        if isinstance(x, dict):
            return {k: walk(v) for k, v in x.items() if k not in ("minFloat", "maxFloat")}
        return x
    return walk(d)


def is_mutable_wire(v):
    return isinstance(v, dict) and any(k in v for k in ("l", "m", "s", "q"))


def wire_truthy(v):
    if v is None or v is False or v == 0 or v == "":
        return False
    if isinstance(v, dict):
        for k in ("f", "d"):
            if k in v:
                return v[k][0] != 0
        for k in ("l", "t", "s", "fs", "q", "m"):
            if k in v:
                return len(v[k]) > 0
    return True


class HGen:
    """generator of class sources / hierarchies (pure data)"""

    def __init__(self, rng, tier):
        self.rng = rng
        self.tier = tier
        self.dg = gen.DeclGen(rng, max_depth=1 if tier == "quick" else 2)
        self.vg = gen.ValGen(rng)
        self.ctx = make_ctx()
        self.n = 0

    def fresh(self, p="K"):
        self.n += 1
        return f"{p}{self.n}"

    def decl(self, simple=False):
        for _ in range(20):
            d = self.dg.decl(1 if simple else 0)
            if d["k"] == "struct":
                if d.get("inline") and self.rng.random() < 0.7:
                    continue
                from .construct import fix_accepts
                fix_accepts(d)
            return d
        return {"k": "integer"}

    def dflt_of(self, v, force_gen=False):
        if force_gen or (is_mutable_wire(v) and self.rng.random() < 0.8) or self.rng.random() < 0.15:
            return {"gen": v}
        return {"lit": v}

    def field_entry(self, allow_default=True):
        rng = self.rng
        d = self.decl()
        e = {"e": "field", "decl": d, "kw": None, "eq": None}
        if rng.random() < 0.3:
            e["annOnly"] = True     # spelled `name: F(...)` with no assignment
        if not allow_default or d["k"] in NO_DEFAULT_KINDS or '"k": "struct"' in json.dumps(d):
            return e     # defaults that are / contain Structure instances are out of scope
        if rng.random() < 0.06:
            # a literal None as default: `default=None` is no default at all; `name: F = None` is validated against F
            # (refused unless F admits None) and then is no default either (`_default is None`)
            if rng.random() < 0.5 and d["k"] in KW_DEFAULT_KINDS:
                e["kw"] = {"lit": None}
            else:
                e["eq"] = {"lit": None}
                e.pop("annOnly", None)
            return e
        r = rng.random()
        if r < 0.55:
            return e
        v = self.vg.valid(d)
        if v is gen.NOVALUE or v is None:
            return e
        if isinstance(v, dict) and "o" in v:
            return e
        # the default as Python holds it (set / dict literals collapse ==-equal members)
        v = dump.canon(dump.dump_value(dump.load_value(v, self.ctx), self.ctx))
        if r < 0.78 and d["k"] in KW_DEFAULT_KINDS:
            e["kw"] = self.dflt_of(v)
        elif r < 0.92:
            e["eq"] = self.dflt_of(v, force_gen=is_mutable_wire(v))
            e.pop("annOnly", None)
        elif len(d) == 1 and d["k"] in CLASS_FORM and not is_mutable_wire(v):
            e["kw"] = e["eq"] = {"lit": v}
            e["form"] = "class"
            e.pop("annOnly", None)
        return e

    def const_entry(self):
        return {"e": "const", "v": self.rng.choice([1, "cv", True, {"f": [3, 2]}, {"e": ["Color", "RED"]}, 0, ""])}

    def class_src(self, name, bases, visible, p_redeclare=0.25, n_fields=None):
        """a class source; `visible` = names of fields inherited from the bases"""
        rng = self.rng
        entries = []
        used = set()
        n = rng.randint(0, 3) if n_fields is None else n_fields
        for _ in range(n):
            pool = [x for x in FIELD_NAMES if x not in used]
            inh = [x for x in pool if x in visible]
            new = [x for x in pool if x not in visible]
            if inh and (rng.random() < p_redeclare or not new):
                nm = rng.choice(inh)
            elif new:
                nm = rng.choice(new)
            else:
                break
            used.add(nm)
            if rng.random() < 0.12:
                entries.append([nm, self.const_entry()])
            else:
                entries.append([nm, self.field_entry()])
        if rng.random() < 0.25:
            nm, kind = rng.choice([("_custom_attribute_z", "bool"), ("_zz", "other"), ("plain", "other"),
                                   ("__meta__", "list"), ("_custom_attribute_l", "list"), ("_xy", "bareType")])
            entries.insert(rng.randint(0, len(entries)), [nm, {"e": "attr", "a": kind}])
        src = {"name": name, "bases": bases, "entries": entries, "required": None, "optional": [],
               "addl": None, "ignoreNone": None, "immutable": None, "keysOf": []}
        own = [k for k, e in entries if e["e"] in ("field", "const")]
        everything = sorted(set(own) | set(visible))
        if rng.random() < 0.3:
            src["required"] = sorted(rng.sample(everything, rng.randint(0, len(everything)))) if everything else []
            if rng.random() < 0.1:
                src["required"].append("zz_nonfield")
        elif own and rng.random() < 0.25:
            src["optional"] = sorted(rng.sample(own, rng.randint(1, len(own))))
        if everything and rng.random() < 0.15:
            # @keys_of(E1[, E2[, E3]]) over own and inherited names; sometimes one member of one enum
            # (any argument position) is not a field
            missing = self.fresh("kz") if rng.random() < 0.3 else None
            src["keysOf"] = self.keys_enums(everything, rng.randint(1, 3), missing)
        if rng.random() < 0.2:
            src["addl"] = rng.random() < 0.5
        if rng.random() < 0.25:
            src["ignoreNone"] = rng.random() < 0.8
        if rng.random() < 0.08:
            src["immutable"] = True
        if rng.random() < 0.12:
            # a (trivial) serialization / deserialization mapper of the class's own: what the derivation operators and
            # subclassing do with it is part of the class record (`ownMappers`)
            entries.append([rng.choice(["_serialization_mapper", "_deserialization_mapper"]), {"e": "attr", "a": "mapper"}])
        return src

    def keys_enums(self, pool, k, missing=None, pos=None):
        """member-name lists of k enum classes for @keys_of: the names of `pool` dealt out over the
        enums (a name may occur in two enums), plus — if given — the name `missing` in the enum at
        argument position `pos` (random if None), at a random place among its members"""
        rng = self.rng
        pool = list(pool)
        rng.shuffle(pool)
        if rng.random() < 0.5 and len(pool) > k:
            pool = pool[:rng.randint(k, len(pool))]
        groups = [[] for _ in range(k)]
        for i, nm in enumerate(pool):
            groups[i % k].append(nm)
            if rng.random() < 0.15:
                groups[rng.randrange(k)].append(nm)
        for g in groups:
            if not g:
                g.append(rng.choice(pool))
        groups = [list(dict.fromkeys(g)) for g in groups]
        if missing is not None:
            p = rng.randrange(k) if pos is None else pos
            groups[p].insert(rng.randint(0, len(groups[p])), missing)
        return groups

    def hierarchy(self, max_classes=4, sealed_leaf=False):
        """steps defining a DAG of classes (chains, multiple bases, mixins)"""
        rng = self.rng
        steps, classes, mixins = [], [], []
        visible = {}
        n = rng.randint(1, max_classes)
        for i in range(n):
            name = self.fresh()
            bases = []
            if classes and rng.random() < 0.85:
                k = 1 if rng.random() < 0.55 or len(classes) < 2 else 2
                # prefer recent classes so that chains get deep
                cands = list(classes)
                first = cands[-1] if rng.random() < 0.6 else rng.choice(cands)
                bases = [first]
                if k == 2:
                    other = rng.choice([c for c in cands if c != first])
                    bases = [first, other] if rng.random() < 0.5 else [other, first]
            else:
                r = rng.random()
                if sealed_leaf and i == n - 1 and r < 0.5:
                    bases = [rng.choice(["ImmutableStructure", "FinalStructure"])]
                elif r < 0.06:
                    bases = ["AbstractStructure"]
                elif r < 0.12:
                    bases = [rng.choice(["ImmutableStructure", "FinalStructure"])]
                else:
                    bases = ["Structure"]
            if rng.random() < 0.2:
                if not mixins or rng.random() < 0.5:
                    m = self.fresh("Mx")
                    mixins.append(m)
                    steps.append({"op": "mixin", "name": m})
                m = rng.choice(mixins)
                bases = [m] + bases if rng.random() < 0.7 else bases + [m]
            vis = set()
            for b in bases:
                vis |= visible.get(b, set())
            src = self.class_src(name, bases, vis)
            steps.append({"op": "define", "src": src})
            visible[name] = vis | {k for k, e in src["entries"] if e["e"] in ("field", "const")}
            classes.append(name)
        return steps, classes, visible

    # ---- multiple inheritance: several bases, diamonds, re-declaration anywhere
    def variant_decl(self, d):
        """a declaration of the same kind with other constraints (so that some values are accepted by
        one and rejected by the other), or an unrelated one"""
        rng = self.rng
        k = d["k"]
        if rng.random() < 0.7:
            if k in ("integer", "number", "float"):
                lo = rng.choice([-2, 0, 1, 3, 5])
                v = {"k": k, "min": [lo, 1], "max": [lo + rng.choice([2, 4, 7]), 1]}
                if rng.random() < 0.3:
                    v["mult"] = rng.choice([2, 3])
                return v
            if k == "string":
                lo = rng.choice([0, 1, 2])
                v = {"k": "string", "minLength": lo, "maxLength": lo + rng.choice([0, 1, 3])}
                if rng.random() < 0.3:
                    v["pattern"] = rng.choice(gen.PATTERNS)
                return v
            if k in ("seqAny", "setAny", "mapAny"):
                v = dict(d)
                v["maxItems"] = rng.choice([1, 2, 3])
                v["minItems"] = rng.choice([0, 1])
                return v
            if k == "enumLit":
                return {"k": "enumLit", "values": rng.sample([1, 2, 3, "a", "x1", "abc"], rng.randint(1, 3))}
        return self.decl()

    def constrained_decl(self):
        rng = self.rng
        r = rng.random()
        if r < 0.35:
            return self.variant_decl({"k": rng.choice(["integer", "number", "float"])})
        if r < 0.6:
            return self.variant_decl({"k": "string"})
        if r < 0.7:
            return self.variant_decl({"k": rng.choice(["seqAny", "setAny", "mapAny"])})
        return self.decl()

    def plain_field(self, d, p_default=0.15):
        e = {"e": "field", "decl": d, "kw": None, "eq": None}
        if self.rng.random() < 0.25:
            e["annOnly"] = True
        if self.rng.random() < p_default and d["k"] in KW_DEFAULT_KINDS and '"k": "struct"' not in json.dumps(d):
            v = self.vg.valid(d)
            if v is not gen.NOVALUE and v is not None:
                v = dump.canon(dump.dump_value(dump.load_value(v, self.ctx), self.ctx))
                e["kw"] = self.dflt_of(v)
                e.pop("annOnly", None)
        return e

    def mi_src(self, name, bases, decls, p_redeclare, n_new, required_written=0.15):
        """class source for the multiple-inheritance stream: re-declares each visible field with
        probability p_redeclare (usually the same kind with other constraints), adds n_new fields;
        `decls` maps visible name -> a declaration currently in force somewhere above"""
        rng = self.rng
        entries = []
        for nm in sorted(decls):
            if rng.random() < p_redeclare:
                entries.append([nm, self.plain_field(self.variant_decl(decls[nm]), p_default=0.1)])
        new = [x for x in FIELD_NAMES if x not in decls]
        rng.shuffle(new)
        for nm in new[:n_new]:
            entries.append([nm, self.plain_field(self.constrained_decl())])
        rng.shuffle(entries)
        src = {"name": name, "bases": bases, "entries": entries, "required": None, "optional": [],
               "addl": None, "ignoreNone": None, "immutable": None, "keysOf": []}
        if rng.random() < required_written:
            every = sorted(set(decls) | {k for k, _ in entries})
            src["required"] = sorted(rng.sample(every, rng.randint(0, len(every))))
        if rng.random() < 0.2:
            src["ignoreNone"] = True
        return src

    def mi_hierarchy(self):
        """steps for a hierarchy with multiple inheritance.  Shapes: diamond S(L, R) over a shared root,
        diamond with a longer arm, three bases, two unrelated roots, a leaf below the join; a field may
        be re-declared at the root's children (first base / later base), at the join and at the leaf."""
        rng = self.rng
        steps, classes, visible = [], [], {}

        def define(bases, p_redeclare, n_new):
            name = self.fresh()
            decls = {}
            for b in reversed(bases):
                decls.update(visible.get(b, {}))
            src = self.mi_src(name, list(bases), decls, p_redeclare, n_new)
            steps.append({"op": "define", "src": src})
            vis = dict(decls)
            vis.update({k: e["decl"] for k, e in src["entries"] if e["e"] == "field"})
            visible[name] = vis
            classes.append(name)
            return name

        shape = rng.choice(["diamond", "diamond", "diamond", "long-arm", "three", "unrelated", "double"])
        root = define(["Structure"], 0.0, rng.randint(1, 3))
        # a Constant at the shared root that ONE branch replaces by a Field (or by another Constant): the join sees
        # the name as a Constant through one base and as a Field through the other (which one it is must be read from
        # the class dicts along the MRO: /repo f0f7ce1)
        const_name = None
        if rng.random() < 0.35:
            free = [x for x in FIELD_NAMES if x not in visible[root]]
            if free:
                const_name = rng.choice(free)
                steps[0]["src"]["entries"].append([const_name, self.const_entry()])
        if shape == "unrelated":
            other = define(["Structure"], 0.0, rng.randint(1, 2))
            # the second root re-declares some of the first root's names on its own
            for nm in rng.sample(sorted(visible[root]), rng.randint(0, len(visible[root]))):
                e = self.plain_field(self.variant_decl(visible[root][nm]), 0.1)
                steps[-1]["src"]["entries"] = [p for p in steps[-1]["src"]["entries"] if p[0] != nm]
                steps[-1]["src"]["entries"].append([nm, e])
                visible[other][nm] = e["decl"]
            arms = [root, other]
        else:
            left = define([root], rng.choice([0.0, 0.0, 0.4]), rng.randint(0, 1))
            right = define([root], rng.choice([0.5, 0.5, 0.9]), rng.randint(0, 1))
            if shape == "long-arm":
                right = define([right], rng.choice([0.0, 0.4]), rng.randint(0, 1))
            arms = [left, right]
            if shape == "three":
                arms.append(define([root], 0.5, rng.randint(0, 1)))
            if shape == "double":
                arms = [define([left, right], 0.2, 0), define([root], 0.5, 1)]
        if const_name is not None:
            which = rng.choice(arms)
            st = next(x for x in steps if x["op"] == "define" and x["src"]["name"] == which)
            if which != root:
                st["src"]["entries"] = [p for p in st["src"]["entries"] if p[0] != const_name]
                if rng.random() < 0.75:
                    e = self.plain_field(self.constrained_decl(), p_default=0.3)
                    st["src"]["entries"].append([const_name, e])
                    visible[which][const_name] = e["decl"]
                else:
                    st["src"]["entries"].append([const_name, self.const_entry()])
        rng.shuffle(arms) if rng.random() < 0.35 else None
        bases = list(arms)
        if rng.random() < 0.15:
            m = self.fresh("Mx")
            steps.append({"op": "mixin", "name": m})
            bases.insert(rng.randint(0, len(bases)), m)
        join = define(bases, rng.choice([0.0, 0.0, 0.25]), rng.randint(0, 1))
        if rng.random() < 0.3:
            define([join], rng.choice([0.0, 0.3]), rng.randint(0, 1))
        return steps, classes, {k: set(v) for k, v in visible.items()}

    # ---- single-fault variants
    def simple_src(self, name, bases):
        nm = self.rng.choice(["p", "q", "r1"])
        return {"name": name, "bases": bases,
                "entries": [[nm, {"e": "field", "decl": self.rng.choice([{"k": "integer"}, {"k": "string", "maxLength": 5},
                                                                           {"k": "boolean"}]), "kw": None, "eq": None}]],
                "required": None, "optional": [], "addl": None, "ignoreNone": None, "immutable": None, "keysOf": []}

    INVALID_TRUTHY = [({"k": "integer"}, "x"), ({"k": "integer", "min": [5, 1]}, 1), ({"k": "string"}, 7),
                      ({"k": "string", "maxLength": 2}, "abcd"), ({"k": "boolean"}, 7),
                      ({"k": "seqOf", "item": {"k": "integer"}}, {"l": [1, "a"]}),
                      ({"k": "seqAny", "maxItems": 1}, {"l": [1, 2]}), ({"k": "float", "max": [1, 1]}, {"f": [5, 2]}),
                      ({"k": "enumLit", "values": [1, 2]}, 3), ({"k": "mapAny"}, {"l": [1]}),
                      ({"k": "tuplePos", "items": [{"k": "integer"}, {"k": "string"}]}, {"t": [1]}),
                      ({"k": "enumCls", "cls": "Color", "names": ["RED", "GREEN", "BLUE"]}, "PINK"),
                      ({"k": "setAny"}, {"l": [1]}), ({"k": "number", "mult": 3}, 4)]
    INVALID_FALSY = [({"k": "string"}, 0), ({"k": "integer", "min": [5, 1]}, 0), ({"k": "seqAny", "minItems": 1}, {"l": []}),
                     ({"k": "boolean"}, 0), ({"k": "string", "minLength": 2}, ""), ({"k": "mapAny", "minItems": 1}, {"m": []}),
                     ({"k": "float", "sign": "pos"}, {"f": [0, 1]}), ({"k": "integer"}, ""),
                     ({"k": "enumLit", "values": [1, 2]}, 0)]

    def fault_variants(self, base_name, base_visible, base_required_guess, sealed_name, guards):
        """(kind, expected_to_raise, step) for every fault kind, injected into a simple valid class"""
        rng = self.rng
        out = []

        def variant(kind, mutate, bases=None, expect=True, pre=(), post=()):
            name = self.fresh("F")
            src = self.simple_src(name, bases or [base_name])
            mutate(src)
            out.append({"op": "define", "src": src, "fault": kind, "expect_raise": expect,
                        "control": self.control_of(src, kind), "pre": list(pre), "post": list(post)})

        def chain(first_bases, depth, attr=None):
            """define steps of `depth - 1` intermediate classes (the first on `first_bases`, optionally
            carrying `attr`); returns (steps, bases for the class at the bottom)"""
            steps, bases = [], list(first_bases)
            for lvl in range(depth - 1):
                nm = self.fresh("P")
                s = self.simple_src(nm, bases)
                if attr is not None and lvl == 0:
                    s["entries"].append(attr)
                steps.append({"op": "define", "src": s})
                bases = [nm]
            return steps, bases

        fname = "flt"
        d, v = rng.choice(self.INVALID_TRUTHY)
        variant("default-violates:kw-truthy",
                lambda s: s["entries"].append([fname, {"e": "field", "decl": d, "kw": {"lit": v}, "eq": None}]))
        d2, v2 = rng.choice(self.INVALID_TRUTHY)
        variant("default-violates:kw-callable",
                lambda s: s["entries"].append([fname, {"e": "field", "decl": d2, "kw": {"gen": v2}, "eq": None}]))
        d3, v3 = rng.choice(self.INVALID_FALSY)
        variant("default-violates:kw-falsy",
                lambda s: s["entries"].append([fname, {"e": "field", "decl": d3, "kw": {"lit": v3}, "eq": None}]))
        d4, v4 = rng.choice([x for x in self.INVALID_TRUTHY + self.INVALID_FALSY if not is_mutable_wire(x[1])])
        variant("default-violates:eq",
                lambda s: s["entries"].append([fname, {"e": "field", "decl": d4, "kw": None, "eq": {"lit": v4}}]))
        d5, v5 = rng.choice([x for x in self.INVALID_TRUTHY + self.INVALID_FALSY
                             if len(x[0]) == 1 and x[0]["k"] in CLASS_FORM and not is_mutable_wire(x[1])])
        variant("default-violates:class-form",
                lambda s: s["entries"].append([fname, {"e": "field", "decl": d5, "kw": {"lit": v5}, "eq": {"lit": v5},
                                                      "form": "class"}]))
        md, mv = rng.choice([({"k": "seqOf", "item": {"k": "integer"}}, {"l": []}),
                             ({"k": "seqOf", "item": {"k": "integer"}}, {"l": [1, 2]}),
                             ({"k": "mapAny"}, {"m": []}), ({"k": "mapAny"}, {"m": [["k", 1]]}),
                             ({"k": "setAny"}, {"s": []}), ({"k": "setAny"}, {"s": [1]}),
                             ({"k": "anything"}, {"l": [1]})])
        variant("mutable-default:eq",
                lambda s: s["entries"].append([fname, {"e": "field", "decl": md, "kw": None, "eq": {"lit": mv}}]))
        cd, cv = rng.choice([({"k": "seqAny"}, {"l": []}), ({"k": "mapAny"}, {"m": []}), ({"k": "setAny"}, {"s": []}),
                             ({"k": "anything"}, {"l": []})])
        variant("mutable-default:class-form-empty",
                lambda s: s["entries"].append([fname, {"e": "field", "decl": cd, "kw": {"lit": cv}, "eq": {"lit": cv},
                                                      "form": "class"}]))
        cd2, cv2 = rng.choice([({"k": "seqAny"}, {"l": [1]}), ({"k": "mapAny"}, {"m": [["k", 1]]}),
                               ({"k": "setAny"}, {"s": [1]}), ({"k": "anything"}, {"l": [1]})])
        variant("mutable-default:class-form-nonempty",
                lambda s: s["entries"].append([fname, {"e": "field", "decl": cd2, "kw": {"lit": cv2}, "eq": {"lit": cv2},
                                                      "form": "class"}]))
        bad = rng.choice(["_x", "_foo", "kwargs", "__x", "_"])
        variant("bad-field-name",
                lambda s: s["entries"].append([bad, rng.choice([{"e": "field", "decl": {"k": "integer"}, "kw": None, "eq": None},
                                                                {"e": "const", "v": 1}])]))

        def opt_own(s):
            nm = s["entries"][0][0]
            s["required"] = [nm]
            s["optional"] = [nm]
        variant("optional-names-required:own", opt_own)
        if base_required_guess:
            r = rng.choice(sorted(base_required_guess))
            variant("optional-names-required:base", lambda s: s.update(optional=[r]))
        if sealed_name:
            variant("subclass-sealed", lambda s: None, bases=[sealed_name])
            variant("subclass-sealed", lambda s: None, bases=[base_name, sealed_name] if base_name != "Structure" else [sealed_name])
        cbad = rng.choice([{"l": [1]}, None, {"m": []}, {"d": [1, 1]}, {"t": [1]}, {"s": [1]}])
        variant("bad-constant", lambda s: s["entries"].append(["cst", {"e": "const", "v": cbad}]))
        # @keys_of with 1..3 enum classes whose other members are own / inherited fields; the missing
        # member sits in the enum at every argument position in turn
        for k, pos in [(1, 0), (2, 0), (2, 1), (3, rng.choice([0, 1])), (3, 2)]:
            variant(f"keys-of-missing:{k}-enums:pos{pos}",
                    lambda s, k=k, pos=pos: s.update(keysOf=self.keys_enums(
                        sorted(set(base_visible) | {s["entries"][0][0]}), k, "missing_member", pos)))
        an, ak = rng.choice([("_foo", "bool"), ("_foo", "list"), ("_bar", "dict"), ("plain_attr", "bool"),
                             ("_x", "list"), ("other_attr", "dict")])
        variant("unknown-attr", lambda s: s["entries"].append([an, {"e": "attr", "a": ak}]), expect=guards["consts"])
        # the unknown name already exists somewhere above the class (depth 1..3): on a plain mixin, on an
        # ancestor Structure defined while the guard was off, or as an internal name of Structure itself
        for depth in (1, rng.choice([2, 3])):
            mx, mn = self.fresh("Mx"), rng.choice(["_labels", "_tags", "_debug", "plain_flag", "_opts"])
            mk = rng.choice(["bool", "list", "dict"])
            first = [mx, base_name] if rng.random() < 0.7 else [base_name, mx]
            steps_, bases_ = chain(first, depth)
            variant(f"unknown-attr:on-mixin:depth{depth}",
                    lambda s, mn=mn: s["entries"].append([mn, {"e": "attr", "a": rng.choice(["bool", "list", "dict"])}]),
                    bases=bases_, expect=guards["consts"],
                    pre=[{"op": "mixin", "name": mx, "attrs": [[mn, mk]]}] + steps_)
        depth = rng.choice([1, 2, 3])
        ln, lk = rng.choice(["_debug", "_legacy_flag", "_opts", "_cache"]), rng.choice(["bool", "list", "dict"])
        legacy = self.fresh("L")
        lsrc = self.simple_src(legacy, [base_name])
        lsrc["entries"].append([ln, {"e": "attr", "a": lk}])
        steps_, bases_ = chain([legacy], depth)
        variant(f"unknown-attr:on-guard-off-ancestor:depth{depth}",
                lambda s: s["entries"].append([ln, {"e": "attr", "a": rng.choice(["bool", "list", "dict"])}]),
                bases=bases_, expect=True,
                pre=[{"op": "guards", "consts": False, "nontypedpy": guards["nontypedpy"]},
                     {"op": "define", "src": lsrc}] + steps_
                    + [{"op": "guards", "consts": True, "nontypedpy": guards["nontypedpy"]}],
                post=[{"op": "guards", "consts": guards["consts"], "nontypedpy": guards["nontypedpy"]}])
        iname = rng.choice(["_additional_serialization", "_is_wrapper", "_set_defaults"])
        variant("unknown-attr:internal-name",
                lambda s: s["entries"].append([iname, {"e": "attr", "a": rng.choice(["bool", "list", "dict"])}]),
                bases=[rng.choice([base_name, "Structure"])], expect=guards["consts"])
        bn, bk = rng.choice([("x", "bareType"), ("x", "generic"), ("_x", "bareType"), ("some_type", "generic")])
        variant("bare-type", lambda s: s["entries"].append([bn, {"e": "attr", "a": bk}]), expect=guards["nontypedpy"])
        un = rng.choice(["x", "some_type", "u1"])
        variant("bare-type:pep604-union", lambda s: s["entries"].append([un, {"e": "attr", "a": "union"}]),
                expect=guards["nontypedpy"])
        return out

    def control_of(self, src, kind):
        """the same class without the fault (must define cleanly for the fault verdict to count)"""
        c = copy.deepcopy(src)
        c["name"] = src["name"] + "c"
        c["entries"] = c["entries"][:1]
        c["optional"] = []
        c["required"] = None
        c["keysOf"] = ([[n for n in e if n != "missing_member"] for e in src["keysOf"]]
                       if kind.startswith("keys-of-missing") else [])
        c["keysOf"] = [e for e in c["keysOf"] if e]
        if kind == "subclass-sealed":
            c["bases"] = ["Structure"]
        return {"op": "define", "src": c}

    # ---- derivation
    def derive_ops(self, source, fields, max_ops=3):
        rng = self.rng
        steps = []
        cur, cur_fields = source, list(fields)
        for _ in range(rng.randint(1, max_ops)):
            kind = rng.choice(["partial", "allRequired", "extend", "omit", "pick", "omit", "pick"])
            st = {"op": "derive", "kind": kind, "source": cur, "name": self.fresh("D"), "names": [],
                  "via": rng.choice(["getitem", "getitem-named", "method"])}
            if kind in ("omit", "pick") and rng.random() < 0.3:
                # no class name given: Foo.omit(...) / Omit[Foo, names] (the result must still be a NEW class)
                st["via"] = rng.choice(["method-default", "getitem-default"])
            if kind in ("omit", "pick"):
                k = rng.randint(0, len(cur_fields))
                st["names"] = rng.sample(cur_fields, k) if cur_fields else []
                r = rng.random()
                if r < 0.12:
                    # a name that is not a field: fresh, or one that IS an attribute / method / internal name of the class
                    st["names"] = st["names"] + [rng.choice(NON_FIELD_NAMES)]
                    st["unknown"] = True
                elif r < 0.2 and st["names"]:
                    st["names"] = st["names"] + [st["names"][0]]
                # how the names argument is passed (Iterable[str]): re-iterable containers and
                # one-shot iterables, in the bracket and the method forms
                st["names_as"] = rng.choice(NAMES_AS)
                if kind == "omit":
                    nf = [f for f in cur_fields if f not in st["names"]]
                else:
                    nf = [f for f in dict.fromkeys(st["names"]) if f in cur_fields]
            else:
                nf = list(cur_fields)
            steps.append(st)
            if st.get("unknown"):
                continue
            cur, cur_fields = st["name"], nf
            if rng.random() < 0.3:
                # further extension of the derived class with new (or redeclared) fields
                name = self.fresh()
                src = self.class_src(name, [cur], set(cur_fields), p_redeclare=0.15, n_fields=rng.randint(1, 2))
                steps.append({"op": "define", "src": src, "extends_derived": cur})
                cur = name
                cur_fields = cur_fields + [k for k, e in src["entries"] if e["e"] in ("field", "const") and k not in cur_fields]
        return steps


def gen_define_cases(rng, tier, n):
    cases = []
    for i in range(n):
        hg = HGen(rng, tier)
        guards = {"consts": rng.random() < 0.75, "nontypedpy": rng.random() < 0.75}
        if rng.random() < 0.25:
            steps, classes, visible = hg.mi_hierarchy()
            stream = "multi-inheritance"
        else:
            steps, classes, visible = hg.hierarchy(4, sealed_leaf=rng.random() < 0.3)
            stream = "hierarchy"
        mode = rng.choice(["type", "exec"])
        case = {"suite": "define", "guards": guards, "steps": steps, "mode": mode, "stream": stream}
        cases.append(finish(case))
        if i % 3 == 0:
            # single-fault variants on top of a hierarchy
            base = rng.choice(classes) if rng.random() < 0.7 else "Structure"
            sealed = hg.fresh("S")
            sealed_step = {"op": "define", "src": hg.simple_src(sealed, [rng.choice(["ImmutableStructure", "FinalStructure"])])}
            req_guess = set()
            for st in steps:
                if st["op"] == "define" and st["src"]["name"] == base and st["src"]["required"] is None:
                    req_guess = {k for k, e in st["src"]["entries"]
                                 if e["e"] == "field" and not e.get("kw") and not e.get("eq") and k not in st["src"]["optional"]}
            faults = hg.fault_variants(base, visible.get(base, set()), req_guess, sealed, guards)
            fsteps = list(steps) + [sealed_step]
            for f in faults:
                fsteps.extend(f.get("pre", []))
                fsteps.append(f["control"])
                fsteps.append({k: v for k, v in f.items() if k not in ("control", "pre", "post")})
                fsteps.extend(f.get("post", []))
            fsteps.append({"op": "fieldclass", "name": "ImmStr", "bases": ["ImmutableField", "String"]})
            fsteps.append({"op": "fieldclass", "name": "SubImmStr", "bases": ["ImmStr"], "fault": "subclass-immutable-field",
                           "expect_raise": True})
            fsteps.append({"op": "fieldclass", "name": "OkStr", "bases": ["String"]})
            fsteps.append({"op": "fieldclass", "name": "SubImmStr2", "bases": ["ImmStr", "OkStr"],
                           "fault": "subclass-immutable-field", "expect_raise": True})
            fsteps.append({"op": "abstract"})
            cases.append(finish({"suite": "define", "guards": guards, "steps": fsteps, "mode": rng.choice(["type", "exec"]),
                                 "stream": "faults"}))
    return cases


def gen_derive_cases(rng, tier, n):
    cases = []
    for i in range(n):
        hg = HGen(rng, tier)
        guards = {"consts": True, "nontypedpy": True}
        if rng.random() < 0.4:
            steps, classes, visible = hg.mi_hierarchy()
            stream = "derive-multi-inheritance"
            src = classes[-1] if rng.random() < 0.8 else rng.choice(classes[-3:])
        else:
            steps, classes, visible = hg.hierarchy(rng.choice([3, 3, 5]), sealed_leaf=rng.random() < 0.4)
            stream = "derive"
            src = classes[-1] if rng.random() < 0.7 else rng.choice(classes)
        steps = steps + hg.derive_ops(src, sorted(visible[src]), 3)
        cases.append(finish({"suite": "derive", "guards": guards, "steps": steps, "mode": rng.choice(["type", "exec"]),
                             "stream": stream}))
    return cases


def finish(case):
    case["vseed"] = zlib.crc32(json.dumps(case["steps"], sort_keys=True).encode())
    case["re"] = gen.re_table(case["steps"], [s for s in gen.STRINGS])
    return case


# ------------------------------------------------------------------ real code

def load_dflt(d, ctx):
    if "gen" in d:
        v = dump.load_value(d["gen"], ctx)
        return lambda v=v: copy.deepcopy(v)
    return dump.load_value(d["lit"], ctx)


def dump_dflt(f, ctx):
    d = getattr(f, "_default", None)
    if d is None:
        return None
    if callable(d):
        return {"gen": dump.dump_value(d(), ctx)}
    return {"lit": dump.dump_value(d, ctx)}


def dump_member(f, ctx):
    if isinstance(f, Constant):
        return {"const": dump.dump_value(f._val, ctx)}
    return {"decl": strip_decl(dump.dump_field(f, ctx)), "dflt": dump_dflt(f, ctx)}


def mro_names(cls):
    return [c.__name__ for c in cls.__mro__ if c.__name__ not in ("object", "UniqueMixin")]


def dump_cls(cls, ctx):
    fields = cls.get_all_fields_by_name()
    params = cls.__signature__.parameters
    return {
        "name": cls.__name__, "mro": mro_names(cls),
        "fields": [[n, dump_member(f, ctx)] for n, f in fields.items()],
        "own": list(cls.__dict__.get("_fields", [])),
        "required": sorted(set(cls._required)),
        "constants": sorted([[n, dump.dump_value(v, ctx)] for n, v in cls._constants.items()]),
        "sigReq": sorted(n for n, p in params.items() if p.kind != Parameter.VAR_KEYWORD and p.default is Parameter.empty),
        "sigOpt": [n for n, p in params.items() if p.kind != Parameter.VAR_KEYWORD and p.default is not Parameter.empty],
        "kwargs": any(p.kind == Parameter.VAR_KEYWORD for p in params.values()),
        "ignoreNone": bool(getattr(cls, "_ignore_none", False)),
        "immutable": bool(getattr(cls, "_immutable", False)),
        "addl": bool(getattr(cls, "_additional_properties", TypedPyDefaults.additional_properties_default)),
        "ownMappers": sorted(k for k in ("_serialization_mapper", "_deserialization_mapper") if k in cls.__dict__),
    }


class Env:
    def __init__(self, case):
        self.ctx = make_ctx()
        self.classes = dict(BUILTIN_BASES)
        self.field_classes = {"Field": Field, "ImmutableField": ImmutableField, "String": String, "Integer": Integer}
        self.mode = case.get("mode", "type")
        # the faults stream repeats the hierarchy of the case before it and appends ~40 near-identical one-field classes
        self.faults_stream = case.get("stream") == "faults"


def make_field(e, env):
    extra = {}
    if e.get("form") == "class":
        return None
    if e.get("kw") is not None:
        extra["default"] = load_dflt(e["kw"], env.ctx)
    return dump.build_field(e["decl"], env.ctx, **extra)


def class_body(src, env):
    """class dict for `type(...)`; Field constructors run here, i.e. inside the 'class statement'"""
    body, ann = {}, {}
    for name, e in src["entries"]:
        if e["e"] == "field":
            if e.get("form") == "class":
                ann[name] = CLASS_FORM[e["decl"]["k"]]
                body[name] = load_dflt(e["eq"], env.ctx)
            elif e.get("eq") is not None:
                ann[name] = make_field(e, env)
                body[name] = load_dflt(e["eq"], env.ctx)
            elif e.get("annOnly"):
                ann[name] = make_field(e, env)
            else:
                body[name] = make_field(e, env)
        elif e["e"] == "const":
            body[name] = Constant(dump.load_value(e["v"], env.ctx))
        else:
            body[name] = copy.copy(ATTR_VALUES[e["a"]])
    if ann:
        body["__annotations__"] = ann
    specials(src, body)
    return body


def specials(src, body):
    if src["required"] is not None:
        body["_required"] = list(src["required"])
    if src["optional"]:
        body["_optional"] = list(src["optional"])
    if src["addl"] is not None:
        body["_additional_properties"] = src["addl"]
    if src["ignoreNone"] is not None:
        body["_ignore_none"] = src["ignoreNone"]
    if src["immutable"] is not None:
        body["_immutable"] = src["immutable"]


def keys_enum_classes(groups):
    return [enum.Enum(f"_KeysEnum{i}", {n: j + 1 for j, n in enumerate(g)}) for i, g in enumerate(groups)]


def class_source_text(src, env, ns):
    """class-statement source text; field objects are produced by calls made inside the body"""
    lines = []
    deco = ""
    if src["keysOf"]:
        for i, e in enumerate(keys_enum_classes(src["keysOf"])):
            ns[f"_KeysEnum{i}"] = e
        ns["keys_of"] = keys_of
        deco = "@keys_of(" + ", ".join(f"_KeysEnum{i}" for i in range(len(src["keysOf"]))) + ")\n"
    bases = ", ".join(src["bases"])
    lines.append(f"{deco}class {src['name']}({bases}):")
    body = {}
    specials(src, body)
    for k, v in body.items():
        lines.append(f"    {k} = {v!r}")
    for i, (name, e) in enumerate(src["entries"]):
        if e["e"] == "field":
            if e.get("form") == "class":
                ns[f"_T{i}"] = CLASS_FORM[e["decl"]["k"]]
                ns[f"_d{i}"] = load_dflt(e["eq"], env.ctx)
                lines.append(f"    {name}: _T{i} = _d{i}")
            else:
                ns[f"_mk{i}"] = (lambda e=e: make_field(e, env))
                if e.get("eq") is not None:
                    ns[f"_d{i}"] = load_dflt(e["eq"], env.ctx)
                    lines.append(f"    {name}: _mk{i}() = _d{i}")
                elif e.get("annOnly"):
                    lines.append(f"    {name}: _mk{i}()")
                else:
                    lines.append(f"    {name} = _mk{i}()")
        elif e["e"] == "const":
            ns[f"_c{i}"] = dump.load_value(e["v"], env.ctx)
            ns["Constant"] = Constant
            lines.append(f"    {name} = Constant(_c{i})")
        else:
            ns[f"_a{i}"] = copy.copy(ATTR_VALUES[e["a"]])
            lines.append(f"    {name} = _a{i}")
    if len(lines) == 1:
        lines.append("    pass")
    return "\n".join(lines) + "\n"


def do_define(src, env):
    bases = tuple(env.classes[b] for b in src["bases"])
    if env.mode == "exec" and not any(not n.isidentifier() for n, _ in src["entries"]):
        ns = {b: env.classes[b] for b in src["bases"]}
        text = class_source_text(src, env, ns)
        exec(compile(text, f"<class {src['name']}>", "exec"), ns)   # noqa: S102 - generated source
        return ns[src["name"]]
    body = class_body(src, env)
    cls = type(src["name"], bases, body)
    if src["keysOf"]:
        cls = keys_of(*keys_enum_classes(src["keysOf"]))(cls)
    return cls


NON_FIELD_NAMES = ["nope", "zz", "A", "", "omit", "pick", "shallow_clone_with_overrides", "get_all_fields_by_name",
                   "_required", "_fields", "_field_by_name", "_constants", "__doc__", "__init__", "__signature__", "__dict__",
                   "_ignore_none", "from_other_class", "hello", "plain"]
NAMES_AS = ["tuple", "list", "set", "frozenset", "dict_keys", "genexpr", "iter", "filter", "map", "str",
            "genexpr", "iter", "tuple"]


def names_container(names, how):
    """the field names as the caller passes them: any Iterable[str]"""
    names = list(names)
    if how == "list":
        return names
    if how == "set":
        return set(names)
    if how == "frozenset":
        return frozenset(names)
    if how == "dict_keys":
        return dict.fromkeys(names).keys()
    if how == "genexpr":
        return (n for n in names)
    if how == "iter":
        return iter(names)
    if how == "filter":
        return filter(lambda n: True, names)
    if how == "map":
        return map(str, names)
    if how == "str" and len(names) == 1 and len(names[0]) == 1:
        return names[0]          # Pick[Foo, ("d")] of the docstring: a bare one-character name
    return tuple(names)


def effective_names(st):
    """the names in the order the container hands them out (sets: this process's iteration order)"""
    return list(names_container(st["names"], st.get("names_as", "tuple")))


def do_derive(st, env):
    src = env.classes[st["source"]]
    kind, name, via = st["kind"], st["name"], st.get("via", "getitem")
    names = names_container(st["names"], st.get("names_as", "tuple"))
    if kind in ("partial", "allRequired", "extend"):
        op = {"partial": Partial, "allRequired": AllFieldsRequired, "extend": Extend}[kind]
        if via == "getitem":
            cls = op[src]
            cls.__name__ = name   # default name is '<Op><Source>'; renamed for the per-case registry only
            return cls
        return op[src, name]
    if via == "method":
        return (src.omit if kind == "omit" else src.pick)(*names, class_name=name)
    op = Omit if kind == "omit" else Pick
    if via in ("method-default", "getitem-default"):
        cls = (src.omit if kind == "omit" else src.pick)(*names) if via == "method-default" else op[src, names]
        if cls is not src:
            cls.__name__ = name   # default name is '<Op><Source>'; renamed for the per-case registry only
        return cls
    return op[src, names, name]


def fingerprint(cls, env, probes):
    """what a class looks like and how it behaves on the probe values (JSON text)"""
    return json.dumps({"dump": dump_cls(cls, env.ctx), "behaviour": behaviour(cls, env, probes)}, sort_keys=True, default=str)


def field_probe_values(f_decl, vg):
    vals = []
    for _ in range(2):
        v = vg.valid(f_decl)
        if v is not gen.NOVALUE:
            vals.append(v)
    vals += vg.boundary(f_decl)[:10]
    vals += vg.rng.sample(vg.confusion(), 5)
    return [v for v in vals if v is not None]


def all_decl_probes(cls, name, env, vg):
    """probe values for field `name` drawn from EVERY declaration of that name in the hierarchy of
    `cls` (each class of the MRO that declares it, plus what get_all_fields_by_name reports), so that
    values on which two declarations disagree are always in the stream"""
    decls, seen = [], set()
    cands = [c.__dict__.get(name) for c in cls.__mro__
             if isinstance(c, typedpy.structures.structures.StructMeta) and name in c.__dict__.get("_fields", [])]
    cands.append(cls.get_all_fields_by_name().get(name))
    for f in cands:
        if f is None or isinstance(f, Constant):
            continue
        try:
            d = dump.dump_field(f, env.ctx)
        except Exception:
            continue
        key = json.dumps(d, sort_keys=True)
        if key not in seen:
            seen.add(key)
            decls.append(d)
    vals = []
    for d in decls:
        vals += field_probe_values(d, vg) if not vals else [v for v in field_probe_values(d, vg)[:14]]
    return vals


def try_assign(cls, name, value, env):
    """outcome of giving `value` to field `name` of a fresh instance of `cls` (skipping the
    constructor's required-argument binding so that one field can be probed in isolation)"""
    try:
        v = dump.load_value(value, env.ctx)
    except Exception:
        return {"skip": True}
    try:
        inst = cls.__new__(cls)
        inst.__dict__["_none_fields"] = set()
        setattr(inst, name, v)
        if name in inst.__dict__:
            return {"ok": dump.canon(dump.dump_value(inst.__dict__[name], env.ctx))}
        return {"ok": "<dropped>"}
    except Exception as e:
        return {"err": err_name(e)}


def behaviour(cls, env, probes):
    out = {}
    for name, vals in probes.items():
        if name in cls.get_all_fields_by_name() and not isinstance(cls.get_all_fields_by_name()[name], Constant):
            out[name] = [try_assign(cls, name, v, env) for v in vals]
    return out


def default_of(cls, name, env):
    f = cls.get_all_fields_by_name()[name]
    if isinstance(f, Constant):
        return {"const": dump.dump_value(f._val, env.ctx)}
    return dump_dflt(f, env.ctx)


def make_probes(cls, env, vg):
    probes = {}
    for name, f in cls.get_all_fields_by_name().items():
        if isinstance(f, Constant):
            continue
        try:
            d = dump.dump_field(f, env.ctx)
        except Exception:
            continue
        probes[name] = field_probe_values(d, vg) + [None]
    return probes


def compare_field_behaviour(a, b, name, vals, env):
    """first value on which classes a and b treat field `name` differently, or None"""
    for v in vals:
        ra, rb = try_assign(a, name, v, env), try_assign(b, name, v, env)
        if ra != rb:
            return {"value": v, "first": ra, "second": rb}
    return None


def first_owner(cls, name):
    for c in cls.__mro__[1:]:
        if isinstance(c, typedpy.structures.structures.StructMeta) and name in c.__dict__.get("_fields", []):
            return c
    return None


def dump_struct(cls, ctx):
    """the real class as the bridge (Sem/DefineBridge.lean `ClassDef.toStruct`) must render it: the Field members
    (Constants are not validated fields) in constructor-signature order, the parameters the signature demands,
    `**kwargs`, flags as getattr finds them, defaults, ImmutableField members, definition order, known subclasses;
    `reqOrder` is the order of the required parameters in the running interpreter (a Python set: the oracle)"""
    fields = {n: f for n, f in cls.get_all_fields_by_name().items() if not isinstance(f, Constant)}
    params = cls.__signature__.parameters
    sig = [n for n in params if n in fields]
    order = sig + [n for n in fields if n not in sig]
    req_order = [n for n, p in params.items() if p.kind != Parameter.VAR_KEYWORD and p.default is Parameter.empty]
    decl = {"k": "struct", "name": cls.__name__, "required": sorted(req_order),
            "addl": any(p.kind == Parameter.VAR_KEYWORD for p in params.values()),
            "fields": [[n, dump.dump_field(fields[n], ctx)] for n in order]}
    if getattr(cls, "_ignore_none", False):
        decl["ignoreNone"] = True
    if getattr(cls, "_immutable", False):
        decl["immutable"] = True
    defaults = [[n, dump.dump_value(f._default() if callable(f._default) else f._default, ctx)]
                for n, f in fields.items() if getattr(f, "_default", None) is not None]
    if defaults:
        decl["defaults"] = defaults
    out = {"decl": strip_decl(decl), "order": order, "defOrder": list(fields), "reqOrder": req_order,
           "immFields": sorted(n for n, f in fields.items() if isinstance(f, ImmutableField)),
           "accepts": sorted({c.__name__ for c in ctx.classes.values()
                              if isinstance(c, type) and issubclass(c, cls)} | {cls.__name__})}
    # on the domain of harness/dump.dump_class (no Constants, _required = the signature's required parameters) the two
    # abstraction functions must agree: the bridge is what the value-level suites get from dump_class
    if len(fields) == len(cls.get_all_fields_by_name()) and sorted(set(cls._required)) == sorted(req_order) \
            and bool(getattr(cls, "_additional_properties", TypedPyDefaults.additional_properties_default)) == decl["addl"]:
        out["dump_class_agrees"] = strip_decl(dump.dump_class(cls, ctx)) == out["decl"]
    return out


def ctor_probes(cls, env, vg):
    """keyword-argument lists for `cls(**kw)`: valid by construction, one field replaced by a boundary neighbour /
    a value of another type / None, one required argument missing, an undeclared keyword, a Constant passed"""
    fields = {n: f for n, f in cls.get_all_fields_by_name().items() if not isinstance(f, Constant)}
    try:
        decls = [[n, dump.dump_field(f, env.ctx)] for n, f in fields.items()]
    except Exception:
        return []
    params = cls.__signature__.parameters
    req = [n for n, p in params.items() if p.kind != Parameter.VAR_KEYWORD and p.default is Parameter.empty]
    d = {"fields": decls, "required": req, "addl": False}
    kws = []
    for _ in range(2):
        kw = vg.valid_kw(d)
        if kw is not gen.NOVALUE:
            kws.append(kw)
    base = kws[0] if kws else None
    if base is not None and decls:
        name, fd = vg.rng.choice(decls)
        others = [kv for kv in base if kv[0] != name]
        cands = [v for v in vg.boundary(fd)[:6] if v is not gen.NOVALUE] + vg.rng.sample(vg.confusion(), 2)
        kws.append(others + [[name, vg.rng.choice(cands)]])
        kws.append(others + [[name, None]])
        kws.append(others)
        r = vg.rng.random()
        if r < 0.5:
            kws.append(base + [["zz_extra", vg.rng.choice([1, None, "s"])]])
        elif getattr(cls, "_constants", None):
            kws.append(base + [[vg.rng.choice(sorted(cls._constants)), 1]])
    elif base is None and not req:
        kws.append([])
    # a None nested inside a container value (an explicit None attribute of an inline structure ...) touches instance
    # equality of the value-level model (C01/C02's subject), not class definition: keep None at the top level only
    return [kw for kw in kws if not any(nested_none(v) for _, v in kw)]


def nested_none(v, top=True):
    if v is None:
        return not top
    if isinstance(v, list):
        return any(nested_none(x, False) for x in v)
    if isinstance(v, dict):
        return any(nested_none(x, False) for x in v.values())
    return False


def ctor_run(cls, env, vg):
    out = []
    for kw in ctor_probes(cls, env, vg):
        try:
            loaded = {k: dump.load_value(v, env.ctx) for k, v in kw}
        except Exception:
            continue
        actual = [[k, rename_inline(dump.dump_value(v, env.ctx), env.ctx)] for k, v in loaded.items()]
        try:
            x = cls(**loaded)
            r = {"ok": rename_inline(dump.dump_value(x, env.ctx), env.ctx)}
        except Exception as e:
            r = {"err": err_name(e), "msg": str(e)[:200]}
        rec = {"kw": actual, "res": r}
        if len(out) < 2 or is_abstract(cls):
            rec["via"] = run_entries(cls, actual, env)
        out.append(rec)
    return out


ENTRIES = ["ctor", "fromOther", "trustFlag", "trustedKw", "trustedMap", "deserTrusted"]


def is_abstract(cls):
    return cls is AbstractStructure or any(b is AbstractStructure for b in cls.__bases__)


def run_entries(cls, kw_wire, env):
    """every class-level way of obtaining an instance of `cls` from the same keyword arguments: constructor,
    from_other_class(mapping), class-level trust flag + constructor, from_trusted_data(**kw) / (mapping), trusted
    deserialization.  -> {entry: {"ok": class name} | {"err": exception class, "abstract": refusal mentions abstract}}"""
    def load():
        return {k: dump.load_value(v, env.ctx) for k, v in kw_wire}

    def attempt(f):
        try:
            x = f()
            return {"ok": type(x).__name__}
        except Exception as e:
            return {"err": err_name(e), "abstract": "abstract" in str(e)}

    def with_flag():
        had = "_trust_supplied_values" in cls.__dict__
        cls.trust_supplied_values(True)
        try:
            return cls(**load())
        finally:
            if not had:
                del cls._trust_supplied_values

    try:
        load()
    except Exception:
        return None
    return {"ctor": attempt(lambda: cls(**load())),
            "fromOther": attempt(lambda: cls.from_other_class(load())),
            "trustFlag": attempt(with_flag),
            "trustedKw": attempt(lambda: cls.from_trusted_data(**load())),
            "trustedMap": attempt(lambda: cls.from_trusted_data(load())),
            "deserTrusted": attempt(lambda: Deserializer(cls).deserialize(load(), direct_trusted_mapping=True))}


def cast_to_abstract_obs(cls, ctor, env):
    """an instance of a concrete class cast to each of its abstract ancestors must be refused"""
    out = []
    targets = [a for a in cls.__mro__[1:] if isinstance(a, type) and issubclass(a, Structure) and is_abstract(a)]
    if not targets or is_abstract(cls):
        return out
    for c in ctor:
        if "ok" not in c["res"]:
            continue
        try:
            x = cls(**{k: dump.load_value(v, env.ctx) for k, v in c["kw"]})
        except Exception:
            continue
        for a in targets:
            try:
                y = x.cast_to(a)
                out.append({"target": a.__name__, "got": type(y).__name__})
            except TypeError as e:
                if "abstract" not in str(e):
                    out.append({"target": a.__name__, "err": str(e)[:120]})
            except Exception as e:
                out.append({"target": a.__name__, "err": f"{type(e).__name__}: {e}"[:120]})
        break
    return out


def is_abstract_src(src):
    return "AbstractStructure" in src["bases"]


def sig_required(cls):
    return {n for n, p in cls.__signature__.parameters.items()
            if p.kind != Parameter.VAR_KEYWORD and p.default is Parameter.empty}


def base_accepts_obs(cls, ctor, env):
    """C14 'inheritance only adds strictness', executed: keyword arguments the subclass constructor accepted,
    restricted to the fields of a base, must be accepted by the base's constructor.  Judged where the statement
    applies (theorem C14.sub_accepts_base_accepts): every field of the base is the same Field object in the
    subclass (no redeclaration on the way), the base demands no parameter the subclass does not (else the
    required-not-superset findings apply), the subclass does not switch _ignore_none on, the base is not abstract."""
    out = []
    sub_fields = cls.get_all_fields_by_name()
    for b in cls.__mro__[1:]:
        if not (isinstance(b, type) and issubclass(b, Structure)) or b in BUILTIN_BASES.values():
            continue
        if any(x is AbstractStructure for x in b.__bases__):
            continue
        bf = {n: f for n, f in b.get_all_fields_by_name().items() if not isinstance(f, Constant)}
        if any(sub_fields.get(n) is not f for n, f in bf.items()):
            continue
        if not sig_required(b) <= sig_required(cls):
            continue
        if getattr(cls, "_ignore_none", False) and not getattr(b, "_ignore_none", False):
            continue
        for c in ctor:
            if "ok" not in c["res"]:
                continue
            try:
                kw = {k: dump.load_value(v, env.ctx) for k, v in c["kw"] if k in bf}
            except Exception:
                continue
            try:
                b(**kw)
            except Exception as e:
                out.append({"base": b.__name__, "kw": [kv for kv in c["kw"] if kv[0] in bf],
                            "err": err_name(e), "msg": str(e)[:160]})
    return out


def observe_define(st, cls, env, vg):
    """C14 observations on a freshly defined real class"""
    obs = {"bases": []}
    src = st["src"]
    own = {k for k, e in src["entries"] if e["e"] in ("field", "const")}
    fields = cls.get_all_fields_by_name()
    for b in cls.__bases__:
        if not (isinstance(b, type) and issubclass(b, Structure)) or b is Structure:
            continue
        bf = b.get_all_fields_by_name()
        consts = set(getattr(b, "_constants", {}))
        rec = {"base": b.__name__,
               "missing_fields": sorted(set(bf) - set(fields)),
               "missing_required": sorted(n for n in set(b._required) - set(cls._required) if n in bf),
               "base_constants": sorted(consts)}
        # required names the base demands that an earlier base declares optional
        earlier = []
        for e in cls.__bases__:
            if e is b:
                break
            if isinstance(e, type) and issubclass(e, Structure) and e is not Structure:
                earlier += [n for n, p in e.__signature__.parameters.items() if p.default is None]
        rec["shadowed"] = sorted(set(rec["missing_required"]) & set(earlier))
        rec["redeclared"] = sorted(set(rec["missing_required"]) & own)
        # a base's Constant that is a Field in the subclass (the subclass, or another branch of the hierarchy that comes
        # first in the MRO, replaced it): its requiredness is the replacing declaration's business
        rec["replaced_constants"] = sorted(n for n in rec["missing_required"]
                                           if n in consts and not isinstance(fields.get(n), Constant))
        obs["bases"].append(rec)
    inherited = []
    for name, f in fields.items():
        if name in own or isinstance(f, Constant):
            continue
        owner = first_owner(cls, name)
        if owner is None:
            continue
        try:
            d = dump.dump_field(f, env.ctx)
        except Exception:
            continue
        vals = all_decl_probes(cls, name, env, vg)
        rec = {"field": name, "owner": owner.__name__, "same_object": f is owner.__dict__.get(name)}
        # None is compared only when class-level None handling is meant to agree
        if (name in cls._required) == (name in owner._required) and \
                bool(getattr(cls, "_ignore_none", False)) == bool(getattr(owner, "_ignore_none", False)):
            vals = vals + [None]
        diff = compare_field_behaviour(owner, cls, name, vals, env)
        if diff:
            rec["diff"] = diff
        if default_of(owner, name, env) != default_of(cls, name, env):
            rec["default_diff"] = [default_of(owner, name, env), default_of(cls, name, env)]
        inherited.append(rec)
    obs["inherited"] = inherited
    if any(b is AbstractStructure for b in cls.__bases__):
        try:
            cls(**{})
            obs["abstract_instantiated"] = True
        except TypeError as e:
            obs["abstract_instantiated"] = "abstract" not in str(e)
        except Exception:
            obs["abstract_instantiated"] = False
    return obs


def spec_fields(kind, names, src_fields):
    if kind == "omit":
        return [f for f in src_fields if f not in names]
    if kind == "pick":
        return [f for f in src_fields if f in names]
    return list(src_fields)


def spec_required(kind, names, source):
    fields = source.get_all_fields_by_name()
    if kind == "partial":
        return set()
    if kind == "allRequired":
        # every Field without an explicit default; a Constant has a fixed value and is carried over
        return {n for n, f in fields.items() if not isinstance(f, Constant) and getattr(f, "_default", None) is None}
    req = set(source._required)
    if kind == "omit":
        return {r for r in req if r not in names}
    if kind == "pick":
        return {r for r in req if r in names}
    return req


def observe_derive(st, source, derived, env, vg, before):
    """C12 observations on real source / derived classes"""
    kind, names = st["kind"], list(st["names"])
    obs = {}
    sf, df = source.get_all_fields_by_name(), derived.get_all_fields_by_name()
    obs["fields"] = list(df)
    obs["required"] = sorted(set(derived._required))
    obs["fields_ok"] = sorted(df) == sorted(spec_fields(kind, names, list(sf)))
    want_req = spec_required(kind, names, source)
    obs["required_ok"] = set(derived._required) == want_req
    if not obs["required_ok"]:
        obs["required_want"] = sorted(want_req)
        obs["required_with_default"] = sorted(n for n in want_req - set(derived._required)
                                              if n in sf and getattr(sf[n], "_default", None) is not None)
    obs["is_subclass"] = issubclass(derived, source)
    obs["is_structure"] = issubclass(derived, Structure)
    retained = []
    ign_same = bool(getattr(source, "_ignore_none", False)) == bool(getattr(derived, "_ignore_none", False))
    obs["ignore_none"] = [bool(getattr(source, "_ignore_none", False)), bool(getattr(derived, "_ignore_none", False)),
                          "_ignore_none" in source.__dict__]
    for name, f in df.items():
        rec = {"field": name, "same_object": f is sf.get(name)}
        if isinstance(f, Constant) or isinstance(sf.get(name), Constant):
            if not (isinstance(f, Constant) and isinstance(sf.get(name), Constant) and f._val == sf[name]._val):
                rec["diff"] = "constant changed"
            retained.append(rec)
            continue
        try:
            d = dump.dump_field(sf[name], env.ctx)
        except Exception:
            continue
        vals = all_decl_probes(source, name, env, vg)
        if (name in source._required) == (name in derived._required) and ign_same:
            vals = vals + [None]
        diff = compare_field_behaviour(source, derived, name, vals, env)
        if diff:
            rec["diff"] = diff
        if default_of(source, name, env) != default_of(derived, name, env):
            rec["default_diff"] = [default_of(source, name, env), default_of(derived, name, env)]
        retained.append(rec)
    obs["retained"] = retained
    # class-level None handling on optional retained fields (source vs derived)
    none_diff = []
    for name in df:
        if name in sf and not isinstance(df[name], Constant) and name not in source._required and name not in derived._required:
            ra, rb = try_assign(source, name, None, env), try_assign(derived, name, None, env)
            if ra != rb:
                none_diff.append({"field": name, "source": ra, "derived": rb})
    obs["none_diff"] = none_diff
    return obs


def run_impl(case):
    env = Env(case)
    vg = gen.ValGen(__import__("random").Random(case.get("vseed", 0)))
    saved = (TypedPyDefaults.block_unknown_consts, Structure.is_non_typedpy_field_assignment_blocked())
    results = []
    try:
        TypedPyDefaults.block_unknown_consts = case["guards"]["consts"]
        Structure.set_block_non_typedpy_field_assignment(case["guards"]["nontypedpy"])
        for st in case["steps"]:
            results.append(run_step(st, env, vg))
    finally:
        TypedPyDefaults.block_unknown_consts = saved[0]
        Structure.set_block_non_typedpy_field_assignment(saved[1])
    return {"steps": results, "accepts": final_accepts(env)}


def add_ctor(res, cls, env, vg, skip=False):
    """bridge view of the new class + constructor runs (correspondence of Sem/DefineBridge.lean); skipped in the
    faults stream (it repeats the hierarchy of the case before it and appends many near-identical one-field classes; one
    variant overwrites one of Structure's own methods with a bool / list / dict while the guard is off, so its
    constructor cannot run)"""
    if skip:
        res["struct"], res["ctor"] = None, []
        return
    try:
        res["struct"] = dump_struct(cls, env.ctx)
    except Exception:
        res["struct"] = None      # a member outside the declaration vocabulary
    res["ctor"] = ctor_run(cls, env, vg) if res["struct"] else []


def final_accepts(env):
    out = []
    for n, c in env.classes.items():
        if n in BUILTIN_BASES or not (isinstance(c, type) and issubclass(c, Structure)):
            continue
        out.append([n, sorted(d.__name__ for k, d in env.classes.items()
                              if isinstance(d, type) and issubclass(d, c))])
    return out


def run_step(st, env, vg):
    op = st["op"]
    if op == "mixin":
        body = {"hello": lambda self: 1}
        body.update({n: copy.copy(ATTR_VALUES[k]) for n, k in st.get("attrs", [])})
        env.classes[st["name"]] = type(st["name"], (), body)
        return {"ok": None}
    if op == "guards":
        TypedPyDefaults.block_unknown_consts = st["consts"]
        Structure.set_block_non_typedpy_field_assignment(st["nontypedpy"])
        return {"ok": None}
    if op == "define":
        src = st["src"]
        if any(b not in env.classes for b in src["bases"]):
            return {"skipped": "base was not defined"}
        # fingerprints of the bases: defining a subclass must not change them
        bases = [env.classes[b] for b in src["bases"] if b not in BUILTIN_BASES and isinstance(env.classes[b], type)
                 and issubclass(env.classes[b], Structure)]
        before = [json.dumps(dump_cls(b, env.ctx), sort_keys=True) for b in bases]
        try:
            cls = do_define(src, env)
        except Exception as e:
            return {"err": err_name(e), "msg": str(e)[:200]}
        env.classes[src["name"]] = cls
        env.ctx.classes[src["name"]] = cls
        res = {"ok": dump_cls(cls, env.ctx)}
        res["obs"] = observe_define(st, cls, env, vg)
        after = [json.dumps(dump_cls(b, env.ctx), sort_keys=True) for b in bases]
        res["obs"]["bases_unchanged"] = before == after
        add_ctor(res, cls, env, vg, skip=env.faults_stream)
        res["obs"]["base_rejects"] = base_accepts_obs(cls, res["ctor"], env)
        res["obs"]["cast_to_abstract"] = cast_to_abstract_obs(cls, res["ctor"], env)
        return res
    if op == "derive":
        if st["source"] not in env.classes:
            return {"skipped": "source was not defined"}
        source = env.classes[st["source"]]
        probes = make_probes(source, env, vg)
        before = fingerprint(source, env, probes)
        try:
            cls = do_derive(st, env)
        except Exception as e:
            after = fingerprint(source, env, probes)
            return {"err": err_name(e), "msg": str(e)[:200], "source_unchanged": before == after,
                    "source_has_constant": any(isinstance(f, Constant) for f in source.get_all_fields_by_name().values())}
        env.classes[st["name"]] = cls
        env.ctx.classes[st["name"]] = cls
        res = {"ok": dump_cls(cls, env.ctx)}
        res["obs"] = observe_derive(st, source, cls, env, vg, before)
        res["obs"]["source_unchanged"] = before == fingerprint(source, env, probes)
        add_ctor(res, cls, env, vg)
        return res
    if op == "fieldclass":
        if any(b not in env.field_classes for b in st["bases"]):
            return {"skipped": "base was not defined"}
        try:
            cls = type(st["name"], tuple(env.field_classes[b] for b in st["bases"]), {})
        except Exception as e:
            return {"err": err_name(e), "msg": str(e)[:200]}
        env.field_classes[st["name"]] = cls
        return {"ok": [c.__name__ for c in cls.__mro__ if c.__name__ in env.field_classes]}
    if op == "abstract":
        via = {"[]": run_entries(AbstractStructure, [], env), "x=1": run_entries(AbstractStructure, [["x", 1]], env)}
        try:
            AbstractStructure()
            return {"ok": "instantiated", "via": via}
        except TypeError as e:
            return {"err": "TypeError", "msg": str(e)[:100], "via": via}
    raise ValueError(op)


# ------------------------------------------------------------------ protocol

def line(case, impl):
    steps = []
    ctor_values = []
    for st, r in zip(case["steps"], impl.get("steps", [])):
        if st["op"] == "abstract":
            steps.append({"op": "instantiate", "cls": "AbstractStructure", "kw": []})
            continue
        s = {k: v for k, v in st.items() if k not in ("control", "fault", "expect_raise", "via", "unknown", "extends_derived",
                                                      "names_as")}
        if st["op"] == "derive":
            s["names"] = effective_names(st)
        if st["op"] == "define":
            s["src"] = dict(st["src"], entries=effective_entries(st["src"]["entries"]))
            if any(e.get("decl", {}).get("k") not in SCALAR_KINDS for _, e in s["src"]["entries"]):
                # nested class references: `isinstance` accepts the class itself (flat hierarchies inside declarations)
                s["src"] = fix_accepts(copy.deepcopy(s["src"]))
        if st["op"] == "derive" and "ok" in r and r["ok"]:
            s["impl"] = {"fields": r["obs"]["fields"], "required": r["obs"]["required"]}
        if st["op"] in ("define", "derive") and r.get("struct"):
            s["reqOrder"] = r["struct"]["reqOrder"]
            s["ctor"] = [c["kw"] for c in r["ctor"]]
            ctor_values.append(s["ctor"])
        steps.append(s)
    re_tab = gen.re_table(case["steps"], [x for x in gen.STRINGS], ctor_values) if ctor_values else case.get("re", [])
    return {"suite": case["suite"], "guards": case["guards"], "steps": steps, "re": re_tab}


def effective_entries(entries):
    """the class dict's key order: assigned names in body order, then annotation-only names
    (added by add_annotations_to_class_dict after the body ran)"""
    return [p for p in entries if not p[1].get("annOnly")] + [p for p in entries if p[1].get("annOnly")]


def cls_view(d):
    """comparable view of a class dump (model or real)"""
    if d is None:
        return None
    return {"name": d["name"], "mro": d["mro"],
            "fields": [[n, ({"const": dump.canon(m["const"])} if "const" in m else
                            {"decl": strip_decl(m["decl"]), "dflt": canon_dflt(m.get("dflt"))})] for n, m in d["fields"]],
            "own": d["own"], "required": d["required"],
            "constants": sorted([[n, dump.canon(v)] for n, v in d["constants"]]),
            "sigReq": d["sigReq"], "sigOpt": d["sigOpt"], "kwargs": d["kwargs"],
            "ignoreNone": d["ignoreNone"], "immutable": d["immutable"], "addl": d["addl"],
            "ownMappers": d.get("ownMappers", [])}


def canon_dflt(d):
    if d is None:
        return None
    k = "gen" if "gen" in d else "lit"
    return {k: dump.canon(d[k])}


def correspondence(case, impl, model):
    """first step where the model and the real code disagree, or None"""
    if "steps" not in impl:
        return "no real-code result"
    for i, (st, r, m) in enumerate(zip(case["steps"], impl["steps"], model["steps"])):
        if "skipped" in r:
            if "ok" in m and m["ok"] is not None and st["op"] in ("define", "derive"):
                return f"step {i} ({st['op']}): real code could not run ({r['skipped']}) but the model defined a class"
            continue
        what = f"step {i} ({st['op']} {st.get('src', {}).get('name') or st.get('name', '')})"
        if st["op"] == "abstract":
            if ("ok" in r) != ("ok" in m):
                return f"{what}: AbstractStructure() model {m} real {r}"
            msg = via_correspondence(what, "[]", (r.get("via") or {}).get("[]"), m.get("via"), [])
            if msg:
                return msg
            continue
        if "err" in r:
            if "err" not in m:
                return f"{what}: real code raises {r['err']} ({r.get('msg')}), model defines the class"
            if m["err"] != r["err"]:
                # which of TypeError / ValueError a *value* is rejected with is C02's subject
                # (Sem/Validate.lean); here only the fact that the default is rejected is compared
                if "Invalid default value" in (r.get("msg") or "") and {m["err"], r["err"]} <= {"TypeError", "ValueError"}:
                    continue
                return f"{what}: exception class differs: model {m['err']}, real {r['err']} ({r.get('msg')})"
            continue
        if "err" in m:
            return f"{what}: model raises {m['err']}, real code defines the class"
        if st["op"] in ("define", "derive"):
            a, b = cls_view(m["ok"]), cls_view(r["ok"])
            if a != b:
                diff = [k for k in a if a[k] != b[k]]
                return (f"{what}: class differs in {diff}: model=" + json.dumps({k: a[k] for k in diff})[:500]
                        + " real=" + json.dumps({k: b[k] for k in diff})[:500])
            msg = bridge_correspondence(what, r, m)
            if msg:
                return msg
        if st["op"] == "fieldclass" and m["ok"] != r["ok"]:
            return f"{what}: field-class MRO differs: model {m['ok']} real {r['ok']}"
    if "accepts" in impl and "accepts" in model:
        ma = {n: a for n, a in model["accepts"]}
        for n, a in impl["accepts"]:
            if n in ma and ma[n] != a:
                return f"subclasses of {n} (accepts) differ: model {ma[n]} real {a}"
    return None


def bridge_correspondence(what, r, m):
    """Sem/DefineBridge.lean: the FieldDecl.struct of the class and `cls(**kw)` through it"""
    rs, ms = r.get("struct"), m.get("struct")
    if not rs or not ms:
        return None
    if rs.get("dump_class_agrees") is False:
        return f"{what}: harness dump_class and the bridge view of the real class differ"
    md = strip_decl(ms["decl"])
    if json.dumps(canon_decl(md), sort_keys=True) != json.dumps(canon_decl(rs["decl"]), sort_keys=True):
        diff = [k for k in set(md) | set(rs["decl"]) if md.get(k) != rs["decl"].get(k)]
        return (f"{what}: bridge struct differs in {diff}: model=" + json.dumps({k: md.get(k) for k in diff})[:400]
                + " real=" + json.dumps({k: rs["decl"].get(k) for k in diff})[:400])
    for k in ("order", "immFields", "defOrder", "accepts"):
        if ms[k] != rs[k]:
            return f"{what}: bridge {k} differs: model {ms[k]} real {rs[k]}"
    if ms.get("wf") is False:
        # C14.reachable_bridge_wf: cannot happen for a class a history defines (since the repair of
        # names-mismatch:constant-shadowed-in-diamond the Constants are the Constant members of _field_by_name)
        return f"{what}: the model's class record has Bridge.wf = false (signature / Constants / fields views disagree)"
    has_inline = '"inline": true' in json.dumps(rs["decl"])
    for i, (rc, mc) in enumerate(zip(r.get("ctor", []), m.get("ctor", []))):
        rr, mr = rc["res"], mc["res"]
        kw = json.dumps(rc["kw"])[:300]
        if "ok" in mr:
            if "ok" not in rr:
                return f"{what}: constructor {kw}: model accepts, real code raises {rr.get('err')}: {rr.get('msg')}"
            if dump.canon(mr["ok"]) != dump.canon(rr["ok"]):
                return (f"{what}: constructor {kw}: different instances: model=" + json.dumps(dump.canon(mr["ok"]))[:300]
                        + " real=" + json.dumps(dump.canon(rr["ok"]))[:300])
        elif "ok" in rr:
            return f"{what}: constructor {kw}: model raises {mr['err']}, real code accepts"
        elif rr["err"] != mr["err"] and rr["err"] not in mc.get("errs", []):
            # several invalid members INSIDE an inline StructureReference value: which of them the nested constructor
            # meets first is the value-level model's (C02's) subject, not the class's
            if has_inline and {rr["err"], mr["err"]} <= {"TypeError", "ValueError"} and "StructureReference" in (rr.get("msg") or ""):
                continue
            return f"{what}: constructor {kw}: exception class differs: model {mr['err']} {mc.get('errs')}, real {rr['err']}: {rr.get('msg')}"
        msg = via_correspondence(what, kw, rc.get("via"), mc.get("via"), mc.get("errs", []))
        if msg:
            return msg
    return None


def via_correspondence(what, kw, rv, mv, errs):
    """the other entry points (Entry / instantiateVia of Sem/DefineBridge.lean) on the same keyword arguments:
    the validating ones decide like the model; the trusting ones succeed whenever the constructor does and are
    refused (TypeError) exactly when the model refuses them, i.e. for an abstract class"""
    if not rv or not mv:
        return None
    ctor_ok = "ok" in rv["ctor"]
    for e in ENTRIES:
        r, m = rv[e], mv[e]
        if e in ("ctor", "fromOther"):
            if ("ok" in r) != (m == "ok"):
                return f"{what}: {e} {kw}: model {m}, real {r}"
            if "err" in r and r["err"] != m and r["err"] not in errs:
                return f"{what}: {e} {kw}: exception class differs: model {m} {errs}, real {r}"
        elif m != "ok":
            # trusted deserialization may fail on the document before it reaches the constructor: any refusal counts
            if "ok" in r or (r["err"] != m and e != "deserTrusted"):
                return f"{what}: {e} {kw}: model refuses ({m}), real {r}"
        elif ctor_ok and e != "deserTrusted" and "ok" not in r:
            return f"{what}: {e} {kw}: the constructor accepts these arguments but the trusting entry raises {r}"
        elif "err" in r and r.get("abstract"):
            return f"{what}: {e} {kw}: refused as abstract although the model's class is not abstract: {r}"
    return None


def canon_decl(d):
    """defaults / enum literals inside a declaration in canonical wire form"""
    if isinstance(d, list):
        return [canon_decl(x) for x in d]
    if isinstance(d, dict):
        if d.get("k") == "struct" and d.get("defaults"):
            d = dict(d, defaults=[[n, dump.canon(v)] for n, v in d["defaults"]])
        return {k: canon_decl(v) for k, v in d.items()}
    return d


def tags(case, impl, model):
    out = ["stream:" + case.get("stream", "?"), "mode:" + case.get("mode", "?"),
           f"guards:{int(case['guards']['consts'])}{int(case['guards']['nontypedpy'])}"]
    mo = model or {}
    msteps = (mo.get("out", mo) or {}).get("steps") or []
    for k, (st, r) in enumerate(zip(case["steps"], impl.get("steps", []))):
        res = "ok" if "ok" in r else ("skipped" if "skipped" in r else "raises:" + r.get("err", "?"))
        for c in r.get("ctor") or []:
            out.append("ctor:" + ("ok" if "ok" in c["res"] else c["res"]["err"]))
            for e, v in (c.get("via") or {}).items():
                if e != "ctor":
                    out.append(f"entry:{e}:" + ("ok" if "ok" in v else ("abstract-refusal" if v.get("abstract") else v["err"])))
        if r.get("struct") and k < len(msteps) and (msteps[k] or {}).get("struct"):
            out.append("bridge-wf:" + str(msteps[k]["struct"].get("wf")).lower())
        for br in (r.get("obs") or {}).get("base_rejects", []) if isinstance(r.get("obs"), dict) else []:
            out.append("base-rejects")
        if st["op"] == "define":
            nb = len([b for b in st["src"]["bases"] if not b.startswith("Mx")])
            out.append(f"define:{res}")
            if st["src"].get("keysOf") and not st.get("fault"):
                out.append(f"keys_of:{len(st['src']['keysOf'])}-enums:{res}")
            if st.get("fault"):
                out.append(f"fault:{st['fault']}:{res}")
            elif "ok" in r:
                out.append(f"define-bases:{nb}{'+mixin' if any(b.startswith('Mx') for b in st['src']['bases']) else ''}")
                out.append(f"mro-depth:{len(r['ok']['mro'])}")
        elif st["op"] == "derive":
            out.append(f"derive:{st['kind']}:{res}")
            if st.get("names_as"):
                out.append(f"names-as:{st['names_as']}:{st.get('via')}")
    return out


def nontrivial(case):
    return sum(1 for st in case["steps"] if st["op"] in ("define", "derive")) >= 2


def describe(case, impl, model):
    return {"steps": [(st.get("src", {}).get("name") or st.get("name") or st["op"],
                       st["op"] + (":" + st["kind"] if st["op"] == "derive" else ""),
                       ("ok" if "ok" in r else r.get("err", "skipped")))
                      for st, r in zip(case["steps"], impl.get("steps", []))][:12],
            "mode": case.get("mode"), "guards": case["guards"]}
