"""Run every property's `pre_build()` (regenerates lean/TypedpyModel/Generated/*.lean from /repo)."""
import importlib
import os
import pkgutil
import sys
import traceback


def main():
    here = os.path.dirname(os.path.abspath(__file__))
    rc = 0
    for m in sorted(pkgutil.iter_modules([os.path.join(here, "props")]), key=lambda m: m.name):
        try:
            mod = importlib.import_module("harness.props." + m.name)
            if hasattr(mod, "pre_build"):
                mod.pre_build()
                print("pre_build:", m.name)
        except Exception:
            traceback.print_exc()
            rc = 1
    return rc


if __name__ == "__main__":
    sys.exit(main())
