#!/usr/bin/env python3
"""Regenerate the generated blocks of DESIGN.md (between <!-- BEGIN:x --> / <!-- END:x --> markers):
status table, per-property theorem lists, findings and fixes, seeded-change table.  Development tool."""
import importlib
import json
import os
import re
import subprocess
import sys

HERE = os.path.dirname(os.path.abspath(__file__))
sys.path.insert(0, HERE)
sys.path.insert(0, "/repo")
sys.path.insert(0, os.path.join(HERE, ".deps"))
PROPS = {json.loads(l)["id"]: json.loads(l) for l in open(os.path.join(HERE, "properties.jsonl"))}


def theorems(pid):
    a = os.path.join(HERE, "lean/TypedpyModel/Audit", pid + ".lean")
    if not os.path.exists(a):
        return []
    return [t.split(".")[-1] for t in re.findall(r"#print axioms (\S+)", open(a).read())]


def findings():
    d = json.load(open(os.path.join(HERE, "known_findings.json")))
    # entries a builder flipped in place carry status "fixed": they suppress nothing (core honours "open" only)
    return [f for f in d["findings"] if f.get("status", "open") == "open"], d["fixed"]


def status_table():
    fo, fx = findings()
    rows = ["| id | title | check | theorems | tie to /repo | open findings | fixed in /repo |", "|---|---|---|---|---|---|---|"]
    for pid, p in PROPS.items():
        built = os.path.exists(os.path.join(HERE, "harness/props", pid.lower() + ".py"))
        meta_p = os.path.join(HERE, "harness/props/meta", pid + ".json")
        tech = json.load(open(meta_p)).get("technique", "") if os.path.exists(meta_p) else ""
        tie = []
        src = open(os.path.join(HERE, "harness/props", pid.lower() + ".py")).read() if built else ""
        if "pre_build" in src:
            tie.append("(T)")
        if built:
            tie.append("(C)")
        rows.append(f"| {pid} | {p['title'][:70]} | {'built' if built else 'not built'} | {len(theorems(pid))} | {'+'.join(tie)} | "
                    f"{sum(1 for f in fo if f['property'] == pid)} | {sum(1 for f in fx if f.get('property') == pid)} |")
    return "\n".join(rows)


def per_property():
    fo, fx = findings()
    out = []
    for pid, p in PROPS.items():
        meta_p = os.path.join(HERE, "harness/props/meta", pid + ".json")
        if not os.path.exists(meta_p):
            continue
        m = json.load(open(meta_p))
        out.append(f"### {pid} — {p['title']}\n")
        out.append(f"**What is proved and how it is tied to the code.** {m['level_text']}\n")
        out.append(f"**Trusted / not covered.** {m['level_note']}\n")
        ths = theorems(pid)
        out.append(f"**Audited theorems ({len(ths)}; `lean/TypedpyModel/Props/{pid}.lean`, axioms printed by `Audit/{pid}.lean` on every run):** "
                   + ", ".join(f"`{t}`" for t in ths) + ".\n")
        try:
            mod = importlib.import_module(f"harness.props.{pid.lower()}")
            out.append(f"**Correspondence / search domain.** {mod.RULE}\n")
        except Exception as e:   # noqa
            pass
        o = [f for f in fo if f["property"] == pid]
        if o:
            out.append("**Open findings (KNOWN-FINDING lines; genuine defects not repaired):**\n")
            for f in o:
                out.append(f"* `{f['key']}` — {f['summary'][:400]}")
            out.append("")
        x = [f for f in fx if f.get("property") == pid]
        if x:
            out.append("**Genuine defects repaired in /repo (`fix:` commits; the check passes without a KNOWN-FINDING line and reports them again if they return):**\n")
            for f in x:
                out.append(f"* {f['summary'][:400]}")
            out.append("")
    return "\n".join(out)


def seeded():
    return subprocess.run([sys.executable, os.path.join(HERE, "tools_seeded.py"), "table"], capture_output=True, text=True).stdout.strip()


def main():
    p = os.path.join(HERE, "DESIGN.md")
    s = open(p).read()
    for name, fn in (("status", status_table), ("properties", per_property), ("seeded", seeded)):
        block = f"<!-- BEGIN:{name} -->\n{fn()}\n<!-- END:{name} -->"
        s, n = re.subn(rf"<!-- BEGIN:{name} -->.*?<!-- END:{name} -->", lambda _m: block, s, flags=re.S)
        assert n == 1, name
    open(p, "w").write(s)
    print("DESIGN.md regenerated")


if __name__ == "__main__":
    main()
